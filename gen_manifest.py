#!/usr/bin/env python3
"""Regenerates MANIFEST.json from the table below (kept in one place so the
manifest is always valid and in step with what ./check can decide)."""
import json
import os
import subprocess

HERE = os.path.dirname(os.path.abspath(__file__))

TECH = ("bounded symbolic execution of the compiled rpki-rs code: Kani 0.68 "
        "proof harnesses over kani::any() inputs, MIR -> goto program "
        "regenerated from /repo on every run, decided by CBMC 6.11 + CaDiCaL "
        "(SAT) for all values within the stated bounds; counterexamples are "
        "replayed natively (kani playback) before being reported")

NOTE = ("Trusted: Kani 0.68 MIR->goto translation and its std/alloc models, "
        "CBMC 6.11, CaDiCaL; the short reference models inside the harnesses; "
        "the bcder Debug shim (DESIGN.md §1). Outside every claim: inputs "
        "larger than the per-harness bounds listed in the evidence file. ")

CLAIMED = {
    "C16": {
        "text": "Every clause of the property (RFC 1982 comparison table, "
                "antisymmetry, dependence on the difference only, strict "
                "growth under add for every n in 1..2^31-1 across the wrap, "
                "big-endian lossless wire form) is decided by the SAT solver "
                "for all 2^64 pairs / 2^96 triples of u32 at full width; the "
                "code is loop-free so there is no bound below the type "
                "width.",
        "ref": "§3 C16",
        "note": "No stubs, no assumptions besides the documented "
                "precondition of Serial::add (n <= 2^31-1).",
    },
}

CLAIMED["C13"] = {
    "text": "Constructor acceptance (strict and relaxed, both families), "
            "accessor values, min/max address, covers == range inclusion, "
            "total-order laws of Prefix / MaxLenPrefix / RouteOrigin "
            "(antisymmetry, transitivity on all triples, Equal iff ==, "
            "more-specific-first, hash consistency) are decided at full "
            "width (u32/u128 addresses, all 256 lengths). SmallAsnSet "
            "collection is decided for every multiset of 0..3 (quick) / 0..5 "
            "(thorough) arbitrary u32 items as a length-indexed family, the "
            "four merge iterators for every pair of valid sets of up to 3 "
            "(union) / 2 (others) elements in quick and 5 / 3 in thorough, "
            "against the mathematical set through one symbolic witness "
            "element.",
    "ref": "§3 C13",
    "note": "Set operands are produced by assuming the representation "
            "invariant (strictly ascending) on an arbitrary vector; the "
            "collect harnesses show the public constructor establishes it. "
            "Display/FromStr text forms (std::net formatting/parsing) are "
            "outside the claim.",
}

CLAIMED["C15"] = {
    "text": "The drop decision of a local-exceptions file is decided against "
            "the match table of the statement for every combination of "
            "present/absent criteria in two prefix, two BGPsec and none-or-"
            "two ASPA filters with arbitrary values (prefixes at full width) "
            "and an arbitrary payload of each kind, plus the structurally "
            "empty lists and the per-filter functions; each assertion kind "
            "is shown to yield exactly its fields.",
    "ref": "§3 C15",
    "note": "Lists longer than two filters per kind and the JSON "
            "(serde_json) round trip are outside the claim; comments are "
            "None (they do not take part in any decision).",
}

CLAIMED["C17"] = {
    "text": "The time decoder is decided per field group through the public "
            "Time::take_from on DER built in the harness: for each group "
            "(2-digit year + pivot, month/day in a leap and a non-leap year, "
            "time of day, 4-digit year + 29 February, month/day of a "
            "GeneralizedTime with the instant compared against an independent "
            "days-from-civil computation, terminator, widths 11..17 under "
            "both tags) all 256 values of every byte of the group are "
            "symbolic while the other fields hold a fixed valid value. "
            "Validity::verify_at/trim are decided for all 5-tuples of "
            "instants in years 1..9999; serial numbers: top-bit rule, numeric "
            "order on all pairs of 20-octet values, minimal DER form for "
            "every serial, DER decoding for content lengths 1, 2, 20, 21 "
            "(more in thorough), decimal parser on all 3-byte ASCII strings.",
    "ref": "§3 C17",
    "note": "Product decomposition of the time decoder over field groups is "
            "a stated bound (the decoder reads the fields by independent "
            "calls of one reader and chrono validates date and time of day "
            "separately). The encoder's choice of form (UTCTime exactly for "
            "1950..=2049) is decided for every second of years 1..9999 via "
            "the DER length; the digits it writes (core::fmt) and the "
            "decimal text of serials above 2^32 are outside the claim; "
            "take_opt_from with "
            "symbolic input is thorough-tier only.",
}

CLAIMED["C07"] = {
    "text": "Every fixed-layout PDU (Serial Notify/Query, Reset Query, Cache "
            "Response/Reset, IPv4/IPv6 Prefix, both End of Data forms) is "
            "written and read back through the real async writers/readers "
            "(poll loop with a no-op waker) for all field values: "
            "bit-identical, accessors equal inputs, length field = bytes "
            "written. Origin -> PDU (all origins, both actions, all "
            "versions) and PDU -> origin (every prefix PDU, valid or not) "
            "are decided separately and compose to 'survives the wire'. "
            "End of Data version split and read_payload dispatch incl. "
            "refusal of unknown versions with a complete body, Error PDU "
            "layout, and for broken streams: every truncation class of the "
            "fixed-layout readers and Error::skip_payload with arbitrary "
            "header and body (errors, bounded consumption, no spinning on a "
            "closed stream).",
    "ref": "§3 C07",
    "note": "Streams are cut at enumerated truncation points (values "
            "symbolic, lengths concrete): symbolic stream lengths make the "
            "queries run out of memory. NOT decided: reading Router Key / "
            "ASPA PDUs back from a stream and Payload::read (harnesses kept "
            "in the module as '@tier off'; their queries do not finish), "
            "so for those two PDU kinds only item -> PDU gating is covered "
            "by reading. Memory a hostile length field can request is "
            "outside the claim.",
}

CLAIMED["C12"] = {
    "text": "Three groups. (P) parsers against an independent grammar on "
            "'scheme + N arbitrary bytes' including the cached offsets: "
            "HTTPS N=3,5 and both schemes case-insensitively in quick, rsync "
            "path part (2 arbitrary bytes behind h/m/) in quick, rsync N=4,5 "
            "fully symbolic in thorough. (L) laws on arbitrary VALID URIs "
            "(assembled through a hook constructor from any byte string the "
            "reference grammar accepts, with the grammar's offsets): == is "
            "the documented relation, reflexive, symmetric, transitive, "
            "hash-consistent; relative_to / is_parent_of equal an independent "
            "reference for all pairs with 5/6-byte tails; HTTPS ==/hash. "
            "(J) join on concrete bases of every shape with arbitrary "
            "arguments: result text, offsets, re-parse authority (HTTPS in "
            "quick, rsync in thorough); parent in thorough.",
    "ref": "§3 C12",
    "note": "Hook: Rsync/Https::verif_from_parts + verif_parts (cfg "
            "rpki_verif). (L) relies on (P) for 'the parser yields exactly "
            "these states'; the fully symbolic rsync parser and join/parent "
            "(BytesMut / shared-buffer truncation) only fit the thorough "
            "caps. Tails above 6 bytes, serde forms and canonical_* are "
            "outside the claim.",
}

CLAIMED["C02"] = {
    "text": "PARTIAL: the bytes handed to the signature verifier "
            "(SignedAttrs::encode_verify: SET OF tag, DER length, attribute "
            "bytes unchanged) are decided for every length-encoding class: "
            "sizes 0, 1, 107, 127 (short form), 128, 129, 200, 255 (0x81), "
            "256, 257, 1000 (0x82); and ROA coverage: a ROA prefix (any "
            "address, any length) is covered by canonical EE resources of 2 "
            "full-width blocks exactly when its range lies inside one "
            "block.",
    "ref": "§3 C02",
    "note": "Hook: SignedAttrs::verif_from_bytes. NOT decided: the "
            "digest / signature / EE certificate / resource coverage "
            "composition of SignedObject::validate_at, ROA and ASPA verify "
            "(every CMS object embeds a resource certificate whose decoder "
            "hits a Kani internal compiler error; crypto is FFI), the "
            "signed-attribute parser.",
}
CLAIMED["C03"] = {
    "text": "On the generic chain code instantiated at an 8-bit block type "
            "(both ends of the number space, adjacency and bridging exist at "
            "8 bits): collecting 3 arbitrary blocks in ANY order (thorough: "
            "4) through OwnedChain::from_iter yields the canonical chain of "
            "their union -- the bridging-block defect was found here and "
            "fixed; sorted collection of 2, 3 (4) blocks; one step and the "
            "hand-over state of the unsorted path; Chain::difference on "
            "canonical operands up to 2x2 (thorough 3x2) is the canonical "
            "set difference; is_encompassed and == up to 2x2. At full width "
            "(u32 / u128): AS block canonical form, bounds, membership, "
            "counts, next/previous at both ends; Block::sum == hull iff "
            "touching; IP prefix range arithmetic; range <-> prefix "
            "canonicalisation; IPv4 range -> prefix decomposition tiles the "
            "range (<= 8 addresses, 64 in thorough), IPv6 likewise (<= 8 "
            "addresses anywhere); AsBlocks::difference "
            "2x2; AsBlocks::verify_issued (no-overclaim policy), "
            "verify_covered, contains up to 2x2; AsBlocks collector with 3 "
            "blocks in any order (thorough); AS range text is ordered.",
    "ref": "§3 C03",
    "note": "Hooks: resources::verif re-export of Block/Chain/OwnedChain, "
            "verif_merge_or_add_block, verif_from_iter_unsorted, "
            "AsBlocks::verif_from_vec_unchecked. Environment stubs (listed "
            "per harness in the evidence): core::slice::sort::unstable::"
            "ipnsort -> panic (std sort uses insertion sort below 21 "
            "elements; the real insertion sort runs), from_iter_unsorted -> "
            "panic in the sorted-input harnesses, Vec::new -> "
            "with_capacity(8), Vec::push -> in-place store (fails the "
            "harness beyond 8 elements). NOT decided: Chain::trim and hence "
            "intersection and the trimming policy (slice-to-vec copy of "
            "symbolic length: out of 14 GB), AsBlocks::union at full width "
            "(out of memory; the collector it is built on is decided), DER "
            "range decoding (AS: out of memory; IP: Kani ICE), text/serde "
            "forms, ResourceSet, RequestResourceLimit.",
}
CLAIMED["C09"] = {
    "text": "PARTIAL: delta-chain check against a sort-and-scan reference "
            "for 1, 2, 3 deltas with arbitrary u64 serials and arbitrary "
            "limit (None or any usize), including no-panic; origin check for "
            "snapshot + 2 deltas with arbitrary authority letters; the "
            "per-element byte counter as one inductive step from an "
            "arbitrary (trip, limit) state; the hash attribute parser on "
            "every 64-octet ASCII string (accepted iff 64 hex digits, value "
            "preserved).",
    "ref": "§3 C09",
    "note": "Hooks: xml::decode::VerifCounter, Https::verif_from_parts. "
            "Stub: alloc::fmt::format (error text only). NOT decided: "
            "everything that runs quick-xml (parsing, write->parse round "
            "trip, the hostile-stream bound at the call sites of "
            "reset_and_limit): memchr's CPU detection is inline assembly, "
            "which Kani cannot execute.",
}
CLAIMED["C14"] = {
    "text": "PARTIAL: the file-name rule applied to every manifest entry is "
            "decided against the RFC 9286 grammar for every byte string of "
            "0..7 bytes (12 in thorough), and every accepted name is shown "
            "to be a single non-dot segment of URI-permitted characters "
            "without '/', i.e. a join argument that C12's join harnesses "
            "show stays directly beneath the base.",
    "ref": "§3 C14",
    "note": "Hook: manifest::verif_validate_file_name (wrapper of the "
            "private check both entry decoders call). The empty-stem name "
            "'.ext' is accepted by the code; RFC 9286 asks for a non-empty "
            "stem but the property text does not and the name is harmless, "
            "so only the safe direction is demanded there. NOT decided: "
            "Manifest::decode / ManifestContent::take_from (CMS + "
            "certificate: Kani ICE), iter_uris, len, this/next update "
            "order, hash verification (FFI).",
}

CLAIMED["C08"] = {
    "text": "PARTIAL (the schedule quantifier of the property is NOT "
            "decided): one step of the server connection's state machine "
            "from an arbitrary state -- version negotiation for every 8-byte "
            "header and every version state (first header fixes the version "
            "iff <= 2, else Error code 4 under version 2; later mismatch -> "
            "Error code 8 under the negotiated version; the Error PDU "
            "encapsulates exactly the offending header; a refused header "
            "leaves the state unchanged) and the length check for every "
            "header and expected length (Error code 3). Thorough tier adds the "
            "byte-exact Serial Notify written by Connection::notify for "
            "every source state and connection version, the byte-exact "
            "Error PDU written by Connection::error, and the witness query "
            "of known finding C08-notify-mid-header (one recv call, header "
            "arriving as 3 + 5 octets, notification in between: octets are "
            "taken off the socket and dropped; 19 min / 32 GB).",
    "ref": "§3 C08",
    "note": "Hooks: rtr::server::verif (Conn wrapper of the private "
            "Connection, VQuery mirror of Query, notify future driven by a "
            "solver-chosen schedule instead of tokio's broadcast receiver, "
            "which Kani cannot compile), pdu::Error::verif_from_octets. NOT "
            "decided: fragmentation of the client bytes and interleaving of "
            "notifications with their arrival -- one unfragmented recv call "
            "without the full oracle costs 18 GB / 4 min (state in nested "
            "coroutines), with the oracle, a second call or one Pending it "
            "runs out of 40-45 GB; likewise the responses of reset / serial "
            "(harnesses kept '@tier off'). The cancellation defect the "
            "property text mentions is shown by the single witness query "
            "above and a native demonstration, recorded in "
            "known_findings.json and not repaired (DESIGN section 3 C08); "
            "all other schedules are undecided.",
}

CLAIMED["C04"] = {
    "text": "PARTIAL (accessor clause only; NO decoder entry point is "
            "decided): the item-count, iteration and bound accessors of "
            "resource blocks are panic-free on every value the public "
            "constructors produce -- AsBlock/AsRange::asn_count for every "
            "pair lo <= hi of u32 including AS0-AS4294967295 (the overflow "
            "defect named in the property's anchors was found here and "
            "fixed), AsBlocks::all().asn_count(), the count of canonical "
            "two-block sets, AsBlock iteration for blocks of up to 4 numbers "
            "anywhere including the top of the number space, the host-bit "
            "masks Addr::to_min/to_max for every u128 and every u8 length, "
            "Prefix bounds for every length 0..=128, and "
            "Prefix::from_bit_string (the value handed over by the IP "
            "resource and ROA decoders) for BIT STRINGs of 0, 1, 2, 16, 17 "
            "octets with arbitrary content and unused-bit counts.",
    "ref": "§3 C04",
    "note": "Hook: AsBlocks::verif_from_vec_unchecked (canonical operands). "
            "NOT decided: every decoding entry point of the statement "
            "(certificate, CRL, manifest, ROA, ASPA, RTA, TAL, key, CSR, "
            "identity certificate, signed message): those carrying a "
            "certificate are behind a Kani internal compiler error in the "
            "IP-resources decoder; a single 8-byte AsBlock::take_opt_from "
            "with two symbolic octets already runs the solver out of 12 GB "
            "(harness kept '@tier off'). Panic-freedom of the time and "
            "serial-number decoders within their bounds is part of C17's "
            "harnesses. Time and memory bounds are not addressed.",
}

NOT_APPLICABLE = {
    "C01": "needs a Cert value: decoding one hits a Kani 0.68 internal "
           "compiler error (IP-resources decoder), constructing one needs a "
           "decoded PublicKey plus SHA-1/RSA through aws-lc FFI. The one "
           "reachable building block (AsBlocks::verify_issued under the "
           "refuse policy / verify_covered on canonical sets up to 2x2) is "
           "decided under C03; the composition the property is about "
           "(signature, validity, key usage, issuer chain, trimming policy) "
           "is not reached by any query, so nothing is claimed (DESIGN.md "
           "section 3)",
    "C05": "builders produce CMS objects / certificates whose decoders "
           "cannot be compiled by Kani (ICE) and whose signing is aws-lc "
           "FFI; the one certificate-free piece (RoaBuilder::to_attestation "
           "followed by iterating the built address list, harness kept in "
           "harness/src/c05.rs) timed out after 10 min even on a fully "
           "concrete prefix, so no query for this property finished",
    "C06": "every path of the RTR client goes through tokio::time::timeout "
           "(thread-local coop budget): Kani ICE at compile time",
    "C10": "needs SignedMessage / IdCert values: construction and "
           "validation run through aws-lc FFI and bcder capture buffers; "
           "the shared piece that is decidable (SignedAttrs::encode_verify) "
           "is decided under C02",
    "C11": "quick-xml cannot be executed by Kani (memchr's CPU feature "
           "detection is inline assembly; measured on a concrete document), "
           "so neither round trip nor parser robustness can be decided",
}

ALL = ["C%02d" % i for i in range(1, 18)]

# filled in as the framework grows; anything neither claimed nor listed here
# is reported as not (yet) decided with the generic reason below.
PENDING_REASON = ("no solver-based check is registered for this property in "
                  "this revision of /verif (see DESIGN.md §4 for the plan); "
                  "it is not claimed")


def main():
    hooks_commits = []
    try:
        out = subprocess.check_output(
            ["git", "-C", "/repo", "log", "--format=%H %s"],
            universal_newlines=True)
        for ln in out.splitlines():
            h, s = ln.split(" ", 1)
            if s.startswith("verif-hook:"):
                hooks_commits.append(h)
    except Exception:
        pass
    checks = []
    for pid in ALL:
        if pid not in CLAIMED:
            continue
        c = CLAIMED[pid]
        checks.append({
            "property_id": pid,
            "quick_cmd": "./check %s --tier quick" % pid,
            "thorough_cmd": "./check %s --tier thorough" % pid,
            "evidence_file": "/verif/evidence/%s.json" % pid,
            "replay_cmd_template": "./replay {path}",
            "engine": "kani-cbmc",
            "level_claimed": {
                "category": "model_checking",
                "text": c["text"],
                "design_ref": c["ref"],
            },
            "level_note": NOTE + c["note"],
            "technique": TECH,
        })
    na = []
    for pid in ALL:
        if pid in CLAIMED:
            continue
        na.append({"property_id": pid,
                   "reason": NOT_APPLICABLE.get(pid, PENDING_REASON)})
    man = {
        "version": 1,
        "setup_cmd": "./setup.sh",
        "hooks": {
            "guard": "--cfg rpki_verif",
            "enable": "RUSTFLAGS='--cfg rpki_verif' (set by ./check for the "
                      "cargo kani build of /verif/harness, which depends on "
                      "/repo by path)",
            "baseline_off_cmd": "cd /repo && cargo test --workspace "
                                "--no-fail-fast --offline",
            "source_commits": hooks_commits,
            "add_only": True,
        },
        "engines": [{
            "name": "kani-cbmc",
            "path": "/verif/check",
            "serves_properties": sorted(CLAIMED),
            "kind_free_text": "Kani 0.68 proof harnesses in /verif/harness "
                              "(out-of-tree crate, path dependency on /repo)"
                              ", CBMC 6.11 + CaDiCaL back end, native replay "
                              "of counterexamples via kani playback",
        }],
        "checks": checks,
        "notes": "Every check is a solver verdict over all inputs within the "
                 "bounds stated per harness in evidence/<id>.json; timeouts, "
                 "out-of-memory and too-small unwinding bounds make a check "
                 "exit 2 (inconclusive), never 0. See DESIGN.md.",
        "not_applicable": na,
    }
    json.dump(man, open(os.path.join(HERE, "MANIFEST.json"), "w"), indent=1)
    print("MANIFEST.json: %d claimed, %d not applicable" % (len(checks),
                                                           len(na)))


if __name__ == "__main__":
    main()
