#!/usr/bin/env python3
"""Validate MANIFEST.json and evidence/*.json against the given schemas."""
import json, sys, glob
sys.path.insert(0, "/opt/veriftools/pyvenv/lib/python3.11/site-packages")
try:
    import jsonschema
except ImportError:
    import subprocess
    sys.exit(subprocess.call(["python3-vt", __file__] + sys.argv[1:]))
ok = True
def val(path, schema):
    global ok
    try:
        jsonschema.validate(json.load(open(path)), json.load(open(schema)))
        print("ok   ", path)
    except Exception as e:
        ok = False
        print("FAIL ", path, str(e)[:400])
val("MANIFEST.json", "/root/.vp/MANIFEST.schema.json")
for p in sorted(glob.glob("evidence/*.json")):
    val(p, "/root/.vp/EVIDENCE.schema.json")
man = json.load(open("MANIFEST.json"))
ids = [json.loads(l)["id"] for l in open("properties.jsonl")]
claimed = [c["property_id"] for c in man["checks"]]
na = [c["property_id"] for c in man.get("not_applicable", [])]
for i in ids:
    if (i in claimed) == (i in na):
        ok = False
        print("FAIL  property", i, "must be exactly one of claimed / not_applicable")
sys.exit(0 if ok else 1)
