#!/bin/bash
# Runs every claimed property's quick check in sequence; summary lines go to
# work/all_quick.log
cd "$(dirname "$0")"
mkdir -p work
: > work/all_quick.log
for p in $(python3 -c "import json;print(' '.join(c['property_id'] for c in json.load(open('MANIFEST.json'))['checks']))"); do
  s=$(date +%s)
  ./check $p --tier quick > work/quick-$p.out 2>&1
  rc=$?
  echo "$p rc=$rc $(( $(date +%s) - s ))s :: $(tail -1 work/quick-$p.out)" >> work/all_quick.log
done
echo ALLDONE >> work/all_quick.log
