//! C13 — Prefixes, max-length prefixes and AS-number sets obey their value
//! laws.
//!
//! Addresses are full width (u32 / u128), lengths range over all of u8.
//! @jobs 10 @mem_gb 5 @quick_timeout 600 @thorough_timeout 3600
use crate::util::*;
use rpki::resources::addr::{MaxLenPrefix, Prefix};
use rpki::resources::asn::{Asn, SmallAsnSet};
use rpki::rtr::payload::RouteOrigin;
use std::cmp::Ordering;
use std::net::{IpAddr, Ipv4Addr, Ipv6Addr};

//------------ constructors ---------------------------------------------------

/// @tier quick thorough
/// @fn rpki::resources::addr::Prefix::new rpki::resources::addr::Prefix::new_v4
///   rpki::resources::addr::Bits::is_host_zero
///   rpki::resources::addr::FamilyAndLen::new_v4
///   rpki::resources::addr::FamilyAndLen::len rpki::resources::addr::Prefix::addr
/// @bounds all 2^32 addresses x all 256 lengths; no loops
/// @says strict IPv4 construction succeeds exactly when len <= 32 and all
///   host bits are zero; an accepted prefix reports the family, address and
///   length it was built from; Prefix::new dispatches identically
#[kani::proof]
fn ctor_v4_strict() {
    let a: u32 = kani::any();
    let len: u8 = kani::any();
    let res = Prefix::new_v4(Ipv4Addr::from(a), len);
    let expect_ok = len <= 32 && (a & host_mask_v4(len)) == 0;
    kani::cover!(res.is_ok() && len == 32);
    kani::cover!(res.is_ok() && len == 0);
    kani::cover!(res.is_err() && len <= 32);
    assert_eq!(res.is_ok(), expect_ok);
    let via_new = Prefix::new(IpAddr::V4(Ipv4Addr::from(a)), len);
    assert_eq!(via_new.is_ok(), expect_ok);
    if let Ok(p) = res {
        assert!(p.is_v4() && !p.is_v6());
        assert_eq!(p.len(), len);
        assert_eq!(addr_to_u128(p.addr()), a as u128);
        assert!(matches!(p.addr(), IpAddr::V4(_)));
        assert!(via_new.unwrap() == p);
    }
}

/// @tier quick thorough
/// @fn rpki::resources::addr::Prefix::new rpki::resources::addr::Prefix::new_v6
///   rpki::resources::addr::Bits::is_host_zero
///   rpki::resources::addr::FamilyAndLen::new_v6
///   rpki::resources::addr::FamilyAndLen::len rpki::resources::addr::Prefix::addr
/// @bounds all 2^128 addresses x all 256 lengths; no loops
/// @says strict IPv6 construction succeeds exactly when len <= 128 and all
///   host bits are zero; accessors return family, address and length
#[kani::proof]
fn ctor_v6_strict() {
    let a: u128 = kani::any();
    let len: u8 = kani::any();
    let res = Prefix::new_v6(Ipv6Addr::from(a), len);
    let expect_ok = len <= 128 && (a & host_mask_v6(len)) == 0;
    kani::cover!(res.is_ok() && len == 128);
    kani::cover!(res.is_ok() && len == 0);
    kani::cover!(res.is_ok() && len == 64);
    kani::cover!(res.is_err() && len <= 128);
    assert_eq!(res.is_ok(), expect_ok);
    let via_new = Prefix::new(IpAddr::V6(Ipv6Addr::from(a)), len);
    assert_eq!(via_new.is_ok(), expect_ok);
    if let Ok(p) = res {
        assert!(p.is_v6() && !p.is_v4());
        assert_eq!(p.len(), len);
        assert_eq!(addr_to_u128(p.addr()), a);
        assert!(matches!(p.addr(), IpAddr::V6(_)));
        assert!(via_new.unwrap() == p);
    }
}

/// @tier quick thorough
/// @fn rpki::resources::addr::Prefix::new_relaxed
///   rpki::resources::addr::Prefix::new_v4_relaxed
///   rpki::resources::addr::Prefix::new_v6_relaxed
///   rpki::resources::addr::Bits::clear_host
/// @bounds all addresses of both families x all 256 lengths; no loops
/// @says relaxed construction succeeds exactly when the length fits the
///   family and yields the prefix with the host bits cleared, i.e. the same
///   value strict construction gives for the cleaned address
#[kani::proof]
fn ctor_relaxed_clears_host_bits() {
    let len: u8 = kani::any();
    if kani::any() {
        let a: u32 = kani::any();
        let res = Prefix::new_v4_relaxed(Ipv4Addr::from(a), len);
        let res2 = Prefix::new_relaxed(IpAddr::V4(Ipv4Addr::from(a)), len);
        kani::cover!(res.is_ok() && (a & host_mask_v4(len)) != 0);
        assert_eq!(res.is_ok(), len <= 32);
        assert_eq!(res2.is_ok(), len <= 32);
        if let Ok(p) = res {
            let clean = a & !host_mask_v4(len);
            assert!(p.is_v4());
            assert_eq!(p.len(), len);
            assert_eq!(addr_to_u128(p.addr()), clean as u128);
            assert!(p == Prefix::new_v4(Ipv4Addr::from(clean), len).unwrap());
            assert!(p == res2.unwrap());
        }
    } else {
        let a: u128 = kani::any();
        let res = Prefix::new_v6_relaxed(Ipv6Addr::from(a), len);
        let res2 = Prefix::new_relaxed(IpAddr::V6(Ipv6Addr::from(a)), len);
        kani::cover!(res.is_ok() && (a & host_mask_v6(len)) != 0);
        assert_eq!(res.is_ok(), len <= 128);
        assert_eq!(res2.is_ok(), len <= 128);
        if let Ok(p) = res {
            let clean = a & !host_mask_v6(len);
            assert!(p.is_v6());
            assert_eq!(p.len(), len);
            assert_eq!(addr_to_u128(p.addr()), clean);
            assert!(p == Prefix::new_v6(Ipv6Addr::from(clean), len).unwrap());
            assert!(p == res2.unwrap());
        }
    }
}

/// @tier quick thorough
/// @fn rpki::resources::addr::Prefix::min_addr rpki::resources::addr::Prefix::max_addr
///   rpki::resources::addr::Bits::into_max rpki::resources::addr::Prefix::addr_and_len
/// @bounds every valid prefix of both families (full-width address, every length)
/// @says min_addr/max_addr are the first and last address of the range the
///   prefix denotes (reference: address | host mask)
#[kani::proof]
fn min_max_addr_match_range() {
    let (p, r) = any_prefix();
    kani::cover!(r.v4 && r.len == 0);
    kani::cover!(!r.v4 && r.len == 128);
    kani::cover!(!r.v4 && r.len == 0);
    assert_eq!(addr_to_u128(p.min_addr()), r.lo);
    assert_eq!(addr_to_u128(p.max_addr()), r.hi);
    assert_eq!(matches!(p.max_addr(), IpAddr::V4(_)), r.v4);
    let (a, l) = p.addr_and_len();
    assert!(addr_to_u128(a) == r.lo && l == r.len);
}

//------------ covers ----------------------------------------------------------

/// @tier quick thorough
/// @fn rpki::resources::addr::Prefix::covers
/// @bounds all pairs of valid prefixes, any mix of families, full width
/// @says covers(a, b) holds exactly when both are of one family and b's
///   address range lies within a's (ranges computed independently)
#[kani::proof]
fn covers_iff_range_included() {
    let (a, ra) = any_prefix();
    let (b, rb) = any_prefix();
    let expect = ra.v4 == rb.v4 && ra.lo <= rb.lo && rb.hi <= ra.hi;
    kani::cover!(expect && ra.len < rb.len);
    kani::cover!(!expect && ra.v4 == rb.v4 && ra.len < rb.len);
    kani::cover!(ra.len == 128 && rb.len == 128 && !ra.v4 && !rb.v4);
    kani::cover!(ra.len == 32 && rb.len == 32 && ra.v4 && rb.v4);
    kani::cover!(ra.len == 0 && rb.len == 128 && !ra.v4 && !rb.v4);
    assert_eq!(a.covers(b), expect);
}

//------------ ordering --------------------------------------------------------

/// @tier quick thorough
/// @fn rpki::resources::addr::Prefix::cmp rpki::resources::addr::Prefix::eq
///   rpki::resources::addr::Prefix::partial_cmp
/// @bounds all pairs of valid prefixes, full width
/// @says the order is antisymmetric, Equal exactly for == values, puts IPv4
///   before IPv6, and a more specific prefix sorts before any different
///   prefix covering it
#[kani::proof]
fn ord_pair_laws() {
    let (a, ra) = any_prefix();
    let (b, rb) = any_prefix();
    let ab = a.cmp(&b);
    kani::cover!(ab == Ordering::Less && ra.len < rb.len);
    kani::cover!(ab == Ordering::Greater && ra.v4 == rb.v4);
    assert_eq!(ab, b.cmp(&a).reverse());
    assert_eq!(ab == Ordering::Equal, a == b);
    assert_eq!(a == b,
               ra.v4 == rb.v4 && ra.len == rb.len && ra.lo == rb.lo);
    assert_eq!(a.partial_cmp(&b), Some(ab));
    if ra.v4 && !rb.v4 {
        assert_eq!(ab, Ordering::Less);
    }
    if a.covers(b) && a != b {
        assert_eq!(b.cmp(&a), Ordering::Less);
    }
    if a == b {
        assert_eq!(hash_of(&a), hash_of(&b));
    }
}

/// @tier quick thorough
/// @fn rpki::resources::addr::Prefix::cmp
/// @bounds all triples of valid prefixes (2^411 triples), full width
/// @says the order is transitive (a <= b and b <= c imply a <= c), hence a
///   total order together with the pair laws
#[kani::proof]
fn ord_transitive() {
    let (a, _) = any_prefix();
    let (b, _) = any_prefix();
    let (c, _) = any_prefix();
    kani::cover!(a.cmp(&b) == Ordering::Less && b.cmp(&c) == Ordering::Less);
    if a.cmp(&b) != Ordering::Greater && b.cmp(&c) != Ordering::Greater {
        assert!(a.cmp(&c) != Ordering::Greater);
    }
    if a.cmp(&b) == Ordering::Less && b.cmp(&c) != Ordering::Greater {
        assert!(a.cmp(&c) == Ordering::Less);
    }
}

//------------ MaxLenPrefix ----------------------------------------------------

/// @tier quick thorough
/// @fn rpki::resources::addr::MaxLenPrefix::new
///   rpki::resources::addr::MaxLenPrefix::saturating_new
///   rpki::resources::addr::MaxLenPrefix::resolved_max_len
///   rpki::resources::addr::MaxLenPrefix::max_len
///   rpki::resources::addr::MaxLenPrefix::prefix
/// @bounds every valid prefix x every Option<u8> max length
/// @says a max-length prefix is constructible exactly when max_len is absent
///   or prefix length <= max_len <= family maximum; saturating construction
///   always yields a constructible value, identical to the input when that
///   was valid, otherwise clamped into [prefix length, family maximum]
#[kani::proof]
fn maxlen_ctor() {
    let (p, r) = any_prefix();
    let ml: Option<u8> = kani::any();
    let fam_max = if r.v4 { 32 } else { 128 };
    let valid = match ml {
        None => true,
        Some(m) => r.len <= m && m <= fam_max,
    };
    let res = MaxLenPrefix::new(p, ml);
    kani::cover!(res.is_ok() && ml.is_some());
    kani::cover!(res.is_err() && r.v4 && ml.unwrap_or(0) > 32);
    kani::cover!(res.is_err() && ml.unwrap_or(255) < r.len);
    assert_eq!(res.is_ok(), valid);
    if let Ok(m) = res {
        assert!(m.prefix() == p);
        assert_eq!(m.max_len(), ml);
        assert_eq!(m.prefix_len(), r.len);
        assert_eq!(m.resolved_max_len(), ml.unwrap_or(r.len));
        assert_eq!(addr_to_u128(m.addr()), r.lo);
    }
    let s = MaxLenPrefix::saturating_new(p, ml);
    assert!(s.prefix() == p);
    assert!(MaxLenPrefix::new(p, s.max_len()).is_ok());
    match ml {
        None => assert!(s.max_len().is_none()),
        Some(m) => {
            let clamped = if m < r.len { r.len }
                          else if m > fam_max { fam_max } else { m };
            assert_eq!(s.max_len(), Some(clamped));
        }
    }
    if valid {
        assert!(s == res.unwrap());
    }
    assert!(MaxLenPrefix::from(p).max_len().is_none());
}

/// @tier quick thorough
/// @fn rpki::resources::addr::MaxLenPrefix::cmp rpki::resources::addr::MaxLenPrefix::eq
/// @bounds all pairs of valid max-length prefixes, full width
/// @says the order on max-length prefixes is antisymmetric, Equal exactly on
///   == values, refines the prefix order, and equal values hash equally
#[kani::proof]
fn maxlen_ord_pair_laws() {
    let (a, _, ma) = any_maxlen_prefix();
    let (b, _, mb) = any_maxlen_prefix();
    let ab = a.cmp(&b);
    kani::cover!(a.prefix() == b.prefix() && ab == Ordering::Less);
    kani::cover!(a.prefix() == b.prefix() && ma.is_some() && mb.is_some()
                 && ab == Ordering::Greater);
    assert_eq!(ab, b.cmp(&a).reverse());
    assert_eq!(ab == Ordering::Equal, a == b);
    assert_eq!(a == b, a.prefix() == b.prefix() && ma == mb);
    assert_eq!(a.partial_cmp(&b), Some(ab));
    if a.prefix() != b.prefix() {
        assert_eq!(ab, a.prefix().cmp(&b.prefix()));
    }
    if a == b {
        assert_eq!(hash_of(&a), hash_of(&b));
    }
}

/// @tier quick thorough
/// @fn rpki::resources::addr::MaxLenPrefix::cmp
/// @bounds all triples of valid max-length prefixes, full width
/// @says the order on max-length prefixes is transitive
#[kani::proof]
fn maxlen_ord_transitive() {
    let (a, _, _) = any_maxlen_prefix();
    let (b, _, _) = any_maxlen_prefix();
    let (c, _, _) = any_maxlen_prefix();
    kani::cover!(a.cmp(&b) == Ordering::Less && b.cmp(&c) == Ordering::Less
                 && a.prefix() == c.prefix());
    if a.cmp(&b) != Ordering::Greater && b.cmp(&c) != Ordering::Greater {
        assert!(a.cmp(&c) != Ordering::Greater);
    }
}

//------------ RouteOrigin -----------------------------------------------------

/// @tier quick thorough
/// @fn rpki::rtr::payload::RouteOrigin::eq rpki::rtr::payload::RouteOrigin::cmp
///   rpki::rtr::payload::RouteOrigin::hash
/// @bounds all pairs of route origins (valid max-length prefix, any u32 ASN)
/// @says route origins are equal exactly when prefix, effective max length
///   and ASN are equal; cmp is Equal exactly then, antisymmetric, ordered by
///   (prefix, effective max length, ASN); equal origins hash equally
#[kani::proof]
#[kani::unwind(18)]
fn route_origin_pair_laws() {
    let (pa, ra, ma) = any_maxlen_prefix();
    let (pb, rb, mb) = any_maxlen_prefix();
    let asa: u32 = kani::any();
    let asb: u32 = kani::any();
    let a = RouteOrigin::new(pa, Asn::from_u32(asa));
    let b = RouteOrigin::new(pb, Asn::from_u32(asb));
    let ea = ma.unwrap_or(ra.len);
    let eb = mb.unwrap_or(rb.len);
    let expect_eq = pa.prefix() == pb.prefix() && ea == eb && asa == asb;
    kani::cover!(expect_eq && ma.is_none() && mb.is_some());
    kani::cover!(!expect_eq && pa.prefix() == pb.prefix() && asa == asb);
    assert_eq!(a == b, expect_eq);
    let ab = a.cmp(&b);
    assert_eq!(ab == Ordering::Equal, expect_eq);
    assert_eq!(ab, b.cmp(&a).reverse());
    let expect_ord = pa.prefix().cmp(&pb.prefix())
        .then(ea.cmp(&eb)).then(asa.cmp(&asb));
    assert_eq!(ab, expect_ord);
    assert_eq!(a.partial_cmp(&b), Some(ab));
    assert_eq!(a.is_v4(), ra.v4);
    if expect_eq {
        assert_eq!(hash_of(&a), hash_of(&b));
    }
}

/// @tier quick thorough
/// @fn rpki::rtr::payload::RouteOrigin::cmp
/// @bounds all triples of route origins
/// @says the order on route origins is transitive
#[kani::proof]
fn route_origin_ord_transitive() {
    let (pa, _, _) = any_maxlen_prefix();
    let (pb, _, _) = any_maxlen_prefix();
    let (pc, _, _) = any_maxlen_prefix();
    let a = RouteOrigin::new(pa, Asn::from_u32(kani::any()));
    let b = RouteOrigin::new(pb, Asn::from_u32(kani::any()));
    let c = RouteOrigin::new(pc, Asn::from_u32(kani::any()));
    kani::cover!(a.cmp(&b) == Ordering::Less && b.cmp(&c) == Ordering::Less
                 && pa.prefix() == pc.prefix());
    if a.cmp(&b) != Ordering::Greater && b.cmp(&c) != Ordering::Greater {
        assert!(a.cmp(&c) != Ordering::Greater);
    }
}

//------------ SmallAsnSet -----------------------------------------------------

fn any_asn_array<const N: usize>() -> ([u32; N], usize) {
    let a: [u32; N] = kani::any();
    let n: usize = kani::any();
    kani::assume(n <= N);
    (a, n)
}

fn contains_ref(a: &[u32], x: u32) -> bool {
    let mut found = false;
    for v in a {
        if *v == x {
            found = true;
        }
    }
    found
}

/// Checks the set invariant and membership of `set` against a predicate on
/// one symbolic witness element.
fn check_set<I: Iterator<Item = Asn>>(iter: I, max: usize, x: u32,
                                      expect_member: bool) {
    let mut prev: Option<u32> = None;
    let mut seen = false;
    let mut count = 0usize;
    for asn in iter {
        let v = asn.into_u32();
        if let Some(p) = prev {
            assert!(p < v, "set iterator not strictly ascending");
        }
        if v == x {
            seen = true;
        }
        prev = Some(v);
        count += 1;
        assert!(count <= max);
    }
    assert_eq!(seen, expect_member);
}

/// Collecting exactly N arbitrary items (length concrete, values symbolic;
/// the family N = 0..=K covers every multiset of at most K items).
fn collect_body<const N: usize>() {
    let a: [u32; N] = kani::any();
    let x: u32 = kani::any();
    let set: SmallAsnSet = a.iter().map(|v| Asn::from_u32(*v)).collect();
    // (for N < 2 these two witnesses cannot be satisfied; the members for
    // 0 and 1 items are written out separately below)
    kani::cover!(a[0] == a[N - 1]);
    kani::cover!(a[0] > a[N - 1]);
    check_set(set.iter(), N, x, contains_ref(&a, x));
    assert_eq!(set.contains(Asn::from_u32(x)), contains_ref(&a, x));
    assert_eq!(set.is_empty(), N == 0);
    assert!(set.len() <= N);
    std::mem::forget(set);
}

/// @tier quick thorough
/// @fn rpki::resources::asn::SmallAsnSet::from_iter rpki::resources::asn::SmallAsnSet::iter
///   rpki::resources::asn::SmallAsnSet::contains rpki::resources::asn::SmallAsnSet::len
///   rpki::resources::asn::SmallAsnSet::is_empty
/// @bounds length-indexed family, member for 0 items; unwind 4
/// @says a set collected from no items is empty
#[kani::proof]
#[kani::unwind(4)]
fn asn_set_collect_len0() {
    let x: u32 = kani::any();
    let set: SmallAsnSet = std::iter::empty::<Asn>().collect();
    kani::cover!(true);
    assert!(set.is_empty() && set.len() == 0);
    assert!(set.iter().next().is_none());
    assert!(!set.contains(Asn::from_u32(x)));
    std::mem::forget(set);
}

/// @tier quick thorough
/// @fn rpki::resources::asn::SmallAsnSet::from_iter rpki::resources::asn::SmallAsnSet::iter
///   rpki::resources::asn::SmallAsnSet::contains
/// @bounds length-indexed family, member for exactly 1 arbitrary u32 item
/// @says a set collected from any items iterates strictly ascending (sorted,
///   duplicate-free) and contains exactly the items given
#[kani::proof]
#[kani::unwind(5)]
fn asn_set_collect_len1() {
    let a: u32 = kani::any();
    let x: u32 = kani::any();
    let set: SmallAsnSet = std::iter::once(Asn::from_u32(a)).collect();
    kani::cover!(a == x);
    check_set(set.iter(), 1, x, a == x);
    assert_eq!(set.contains(Asn::from_u32(x)), a == x);
    assert!(!set.is_empty() && set.len() == 1);
    std::mem::forget(set);
}

/// @tier quick thorough
/// @fn rpki::resources::asn::SmallAsnSet::from_iter rpki::resources::asn::SmallAsnSet::iter
///   rpki::resources::asn::SmallAsnSet::contains
/// @bounds length-indexed family, member for exactly 2 arbitrary u32 items
///   (duplicates and either order included), one symbolic witness element
/// @says a set collected from any items iterates strictly ascending (sorted,
///   duplicate-free) and contains exactly the items given
#[kani::proof]
#[kani::unwind(6)]
fn asn_set_collect_len2() { collect_body::<2>(); }

/// @tier quick thorough
/// @fn rpki::resources::asn::SmallAsnSet::from_iter rpki::resources::asn::SmallAsnSet::iter
///   rpki::resources::asn::SmallAsnSet::contains
/// @bounds length-indexed family, member for exactly 3 arbitrary u32 items
/// @says a set collected from any items iterates strictly ascending (sorted,
///   duplicate-free) and contains exactly the items given
/// @out multisets of more than 3 (quick) / 5 (thorough) items
#[kani::proof]
#[kani::unwind(8)]
fn asn_set_collect_len3() { collect_body::<3>(); }

/// @tier thorough
/// @fn rpki::resources::asn::SmallAsnSet::from_iter rpki::resources::asn::SmallAsnSet::iter
///   rpki::resources::asn::SmallAsnSet::contains
/// @bounds length-indexed family, member for exactly 4 arbitrary u32 items
/// @says a set collected from any items iterates strictly ascending (sorted,
///   duplicate-free) and contains exactly the items given
#[kani::proof]
#[kani::unwind(9)]
fn asn_set_collect_len4_t() { collect_body::<4>(); }

/// @tier thorough
/// @fn rpki::resources::asn::SmallAsnSet::from_iter rpki::resources::asn::SmallAsnSet::iter
///   rpki::resources::asn::SmallAsnSet::contains
/// @bounds length-indexed family, member for exactly 5 arbitrary u32 items
/// @says a set collected from any items iterates strictly ascending (sorted,
///   duplicate-free) and contains exactly the items given
#[kani::proof]
#[kani::unwind(10)]
fn asn_set_collect_len5_t() { collect_body::<5>(); }

/// An arbitrary *valid* set of at most N elements: the representation
/// invariant (strictly ascending) is assumed on an arbitrary vector -- one
/// step from an arbitrary valid state, not a history of insertions.
fn any_valid_set<const N: usize>() -> (SmallAsnSet, [u32; N], usize) {
    let (a, n) = any_asn_array::<N>();
    for i in 1..N {
        if i < n {
            kani::assume(a[i - 1] < a[i]);
        }
    }
    (unsafe { SmallAsnSet::from_vec_unchecked(vec_of_len(&a, n)) }, a, n)
}

/// A vector holding the first `n` elements of `a`.  Every arm allocates a
/// buffer of *concrete* size (CBMC handles a choice among a few fixed-size
/// objects far better than one object of symbolic size); the union of the
/// arms covers every length 0..=N.
fn vec_of_len<const N: usize>(a: &[u32; N], n: usize) -> Vec<Asn> {
    let f = |i: usize| Asn::from_u32(a[i]);
    match n {
        0 => Vec::new(),
        1 => vec![f(0)],
        2 => vec![f(0), f(1)],
        3 => vec![f(0), f(1), f(2)],
        4 => vec![f(0), f(1), f(2), f(3)],
        5 => vec![f(0), f(1), f(2), f(3), f(4)],
        _ => unreachable!(),
    }
}

#[derive(Clone, Copy, PartialEq)]
enum Op { Union, Inter, Diff, Sym }

fn setop_body<const N: usize>(op: Op) {
    let (sa, a, na) = any_valid_set::<N>();
    let (sb, b, nb) = any_valid_set::<N>();
    let x: u32 = kani::any();
    let ina = contains_ref(&a[..na], x);
    let inb = contains_ref(&b[..nb], x);
    kani::cover!(na == N && nb == N && ina && inb);
    kani::cover!(na == N && nb == N && ina && !inb);
    kani::cover!(na == 0 && nb == N);
    match op {
        Op::Union => check_set(sa.union(&sb), 2 * N, x, ina || inb),
        Op::Inter => check_set(sa.intersection(&sb), 2 * N, x, ina && inb),
        Op::Diff => check_set(sa.difference(&sb), 2 * N, x, ina && !inb),
        Op::Sym => check_set(sa.symmetric_difference(&sb), 2 * N, x,
                             ina != inb),
    }
    std::mem::forget(sa);
    std::mem::forget(sb);
}

/// Operands of *exactly* N elements each (concrete lengths, symbolic values).
fn setop_full_body<const N: usize>(op: Op) {
    let a: [u32; N] = kani::any();
    let b: [u32; N] = kani::any();
    for i in 1..N {
        kani::assume(a[i - 1] < a[i] && b[i - 1] < b[i]);
    }
    let sa = unsafe { SmallAsnSet::from_vec_unchecked(vec_of_len(&a, N)) };
    let sb = unsafe { SmallAsnSet::from_vec_unchecked(vec_of_len(&b, N)) };
    let x: u32 = kani::any();
    let ina = contains_ref(&a, x);
    let inb = contains_ref(&b, x);
    kani::cover!(ina && inb);
    kani::cover!(ina && !inb);
    match op {
        Op::Union => check_set(sa.union(&sb), 2 * N, x, ina || inb),
        Op::Inter => check_set(sa.intersection(&sb), 2 * N, x, ina && inb),
        Op::Diff => check_set(sa.difference(&sb), 2 * N, x, ina && !inb),
        Op::Sym => check_set(sa.symmetric_difference(&sb), 2 * N, x,
                             ina != inb),
    }
    std::mem::forget(sa);
    std::mem::forget(sb);
}

/// @tier quick
/// @fn rpki::resources::asn::SmallAsnSet::union rpki::resources::asn::SmallSetUnion::next
/// @bounds two arbitrary valid sets (strictly ascending assumed) of 0..=3
///   u32 elements each with symbolic lengths, one symbolic witness element;
///   unwind 9
/// @says union yields a strictly ascending sequence whose members are
///   exactly the elements of either operand
/// @out operands of more than 3 elements (see the 3x3 and thorough members)
#[kani::proof]
#[kani::unwind(9)]
fn asn_set_union_q() { setop_body::<3>(Op::Union); }

/// @tier thorough
/// @fn rpki::resources::asn::SmallAsnSet::union rpki::resources::asn::SmallSetUnion::next
/// @bounds two arbitrary valid sets of 0..=5 u32 elements each with symbolic
///   lengths, one symbolic witness element; unwind 13
/// @says union yields a strictly ascending sequence whose members are
///   exactly the elements of either operand
#[kani::proof]
#[kani::unwind(13)]
fn asn_set_union_t() { setop_body::<5>(Op::Union); }

/// @tier quick
/// @fn rpki::resources::asn::SmallAsnSet::intersection rpki::resources::asn::SmallSetIntersection::next
/// @bounds two arbitrary valid sets (strictly ascending assumed) of 0..=2
///   u32 elements each with symbolic lengths, one symbolic witness element;
///   unwind 7
/// @says intersection yields a strictly ascending sequence whose members are
///   exactly the elements of both operands
/// @out operands of more than 2 elements (see the 3x3 and thorough members)
#[kani::proof]
#[kani::unwind(7)]
fn asn_set_intersection_q() { setop_body::<2>(Op::Inter); }

/// @tier thorough
/// @fn rpki::resources::asn::SmallAsnSet::intersection rpki::resources::asn::SmallSetIntersection::next
/// @bounds two arbitrary valid sets of exactly 3 u32 elements each (concrete
///   lengths, symbolic values), one symbolic witness element; unwind 9
/// @says intersection yields a strictly ascending sequence whose members are
///   exactly the elements of both operands
#[kani::proof]
#[kani::unwind(9)]
fn asn_set_intersection_3x3() { setop_full_body::<3>(Op::Inter); }

/// @tier thorough
/// @fn rpki::resources::asn::SmallAsnSet::intersection rpki::resources::asn::SmallSetIntersection::next
/// @bounds two arbitrary valid sets of 0..=3 u32 elements each with symbolic
///   lengths, one symbolic witness element; unwind 9
/// @says intersection yields a strictly ascending sequence whose members are
///   exactly the elements of both operands
#[kani::proof]
#[kani::unwind(9)]
fn asn_set_intersection_t() { setop_body::<3>(Op::Inter); }

/// @tier quick
/// @fn rpki::resources::asn::SmallAsnSet::difference rpki::resources::asn::SmallSetDifference::next
/// @bounds two arbitrary valid sets (strictly ascending assumed) of 0..=2
///   u32 elements each with symbolic lengths, one symbolic witness element;
///   unwind 7
/// @says difference yields a strictly ascending sequence whose members are
///   exactly the elements of the left operand that are not in the right
/// @out operands of more than 2 elements (see the 3x3 and thorough members)
#[kani::proof]
#[kani::unwind(7)]
fn asn_set_difference_q() { setop_body::<2>(Op::Diff); }

/// @tier thorough
/// @fn rpki::resources::asn::SmallAsnSet::difference rpki::resources::asn::SmallSetDifference::next
/// @bounds two arbitrary valid sets of exactly 3 u32 elements each (concrete
///   lengths, symbolic values), one symbolic witness element; unwind 9
/// @says difference yields a strictly ascending sequence whose members are
///   exactly the elements of the left operand that are not in the right
#[kani::proof]
#[kani::unwind(9)]
fn asn_set_difference_3x3() { setop_full_body::<3>(Op::Diff); }

/// @tier thorough
/// @fn rpki::resources::asn::SmallAsnSet::difference rpki::resources::asn::SmallSetDifference::next
/// @bounds two arbitrary valid sets of 0..=3 u32 elements each with symbolic
///   lengths, one symbolic witness element; unwind 9
/// @says difference yields a strictly ascending sequence whose members are
///   exactly the elements of the left operand that are not in the right
#[kani::proof]
#[kani::unwind(9)]
fn asn_set_difference_t() { setop_body::<3>(Op::Diff); }

/// @tier quick
/// @fn rpki::resources::asn::SmallAsnSet::symmetric_difference rpki::resources::asn::SmallSetSymmetricDifference::next
/// @bounds two arbitrary valid sets (strictly ascending assumed) of 0..=2
///   u32 elements each with symbolic lengths, one symbolic witness element;
///   unwind 7
/// @says symmetric_difference yields a strictly ascending sequence whose members are
///   exactly the elements of exactly one operand
/// @out operands of more than 2 elements (see the 3x3 and thorough members)
#[kani::proof]
#[kani::unwind(7)]
fn asn_set_symmetric_difference_q() { setop_body::<2>(Op::Sym); }

/// @tier thorough
/// @fn rpki::resources::asn::SmallAsnSet::symmetric_difference rpki::resources::asn::SmallSetSymmetricDifference::next
/// @bounds two arbitrary valid sets of exactly 3 u32 elements each (concrete
///   lengths, symbolic values), one symbolic witness element; unwind 9
/// @says symmetric_difference yields a strictly ascending sequence whose members are
///   exactly the elements of exactly one operand
#[kani::proof]
#[kani::unwind(9)]
fn asn_set_symmetric_difference_3x3() { setop_full_body::<3>(Op::Sym); }

/// @tier thorough
/// @fn rpki::resources::asn::SmallAsnSet::symmetric_difference rpki::resources::asn::SmallSetSymmetricDifference::next
/// @bounds two arbitrary valid sets of 0..=3 u32 elements each with symbolic
///   lengths, one symbolic witness element; unwind 9
/// @says symmetric_difference yields a strictly ascending sequence whose members are
///   exactly the elements of exactly one operand
#[kani::proof]
#[kani::unwind(9)]
fn asn_set_symmetric_difference_t() { setop_body::<3>(Op::Sym); }

/// @tier off
/// @fn rpki::resources::asn::SmallAsnSet::from_iter rpki::resources::asn::SmallAsnSet::union
///   rpki::resources::asn::SmallAsnSet::difference
/// @bounds two collected sets from multisets of exactly 2 arbitrary u32
///   elements each (duplicates allowed); unwind 8
/// @says operations on sets *as the public constructor produces them* (not
///   on assumed-valid ones) still give mathematical union and difference
#[kani::proof]
#[kani::unwind(8)]
fn asn_set_ops_on_collected_sets() {
    let a: [u32; 2] = kani::any();
    let b: [u32; 2] = kani::any();
    let x: u32 = kani::any();
    let sa: SmallAsnSet = a.iter().map(|v| Asn::from_u32(*v)).collect();
    let sb: SmallAsnSet = b.iter().map(|v| Asn::from_u32(*v)).collect();
    let ina = contains_ref(&a, x);
    let inb = contains_ref(&b, x);
    kani::cover!(a[0] == a[1] && b[0] != b[1] && ina && !inb);
    check_set(sa.union(&sb), 4, x, ina || inb);
    check_set(sa.difference(&sb), 4, x, ina && !inb);
    check_set(sa.symmetric_difference(&sb), 4, x, ina != inb);
    check_set(sa.intersection(&sb), 4, x, ina && inb);
    std::mem::forget(sa);
    std::mem::forget(sb);
}
