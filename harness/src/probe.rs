//! scratch probes (not part of any property)
use crate::util::*;
use rpki::rtr::pdu::{self, *};
use std::io;

/// @tier quick
/// @says header const fold
#[kani::proof]
#[kani::unwind(4)]
fn p1_hdr_fold() {
    let v: u8 = kani::any();
    let header = Header::new(v, 9, 0, 36);
    let n = header.pdu_len().unwrap();
    kani::cover!(true);
    assert!(n == 36);
}

/// @tier quick
/// @says vec zeroed of concrete size then read_exact
#[kani::proof]
#[kani::unwind(4)]
fn p2_vec_concrete_read_exact() {
    use tokio::io::AsyncReadExt;
    let data: [u8; 4] = kani::any();
    let mut v = vec![0u8; 4];
    let mut rd: &[u8] = &data;
    let res = block_on(rd.read_exact(v.as_mut()), 1).unwrap();
    kani::cover!(res.is_ok());
    assert!(res.is_ok());
    assert!(v[0] == data[0] && v[3] == data[3]);
    let b: bytes::Bytes = v.into();
    assert!(b[1] == data[1]);
    std::mem::forget(res);
    std::mem::forget(b);
}

/// @tier quick
/// @says rk read_payload with constructed header, N=4
#[kani::proof]
#[kani::unwind(4)]
fn p3_rk_read_payload() {
    let v: u8 = kani::any();
    let fl: u8 = kani::any();
    let body: [u8; 28] = kani::any(); // 20 ski + 4 asn + 4 key info
    let header = Header::new(v, 9, (fl as u16) << 8, 36);
    let mut rd: &[u8] = &body;
    let res = block_on(RouterKey::read_payload(header, &mut rd), 1).unwrap();
    kani::cover!(res.is_ok());
    assert!(res.is_ok());
    std::mem::forget(res);
}

/// @tier quick
/// @says vec of header len
#[kani::proof]
#[kani::unwind(4)]
fn p4_vec_of_hdr_len() {
    let header = Header::new(0, 9, 0, 36);
    let n = header.pdu_len().unwrap();
    let v = vec![0u8; n];
    kani::cover!(true);
    let i: usize = kani::any();
    kani::assume(i < 36);
    assert!(v[i] == 0);
    std::mem::forget(v);
}
