//! scratch probes (not part of any property; never run by a registered check)
