//! scratch probes (not part of any property; never run by a registered check)
//! @jobs 6 @mem_gb 10 @quick_timeout 900
use crate::util::*;
use bytes::Bytes;
use rpki::resources::asn::Asn;
use rpki::rtr::payload::{self, Action, PayloadRef};
use rpki::rtr::pdu::{self, *};

/// @tier exp
/// @says probe
#[kani::proof]
#[kani::unwind(6)]
fn probe_p1() {
    let mut w: [u8; 8] = kani::any();
    w[1] = 9;
    let mut rd = ChunkReader::new(&w, false, 0);
    let h = block_on(pdu::Header::read(&mut rd), 2).unwrap().unwrap();
    if h.pdu() != 9 {
        let n: usize = kani::any();
        let v = vec![0u8; n];
        assert!(v.len() == n);
    }
}

/// @tier exp
/// @says probe
#[kani::proof]
#[kani::unwind(6)]
fn probe_p2() {
    let mut w: [u8; 8] = kani::any();
    w[1] = 9;
    let mut rd = &w[..];
    let h = block_on(pdu::Header::read(&mut rd), 2).unwrap().unwrap();
    if h.pdu() != 9 {
        let n: usize = kani::any();
        let v = vec![0u8; n];
        assert!(v.len() == n);
    }
}

/// @tier exp
/// @says probe aspa read_payload with by-value header
#[kani::proof]
#[kani::unwind(6)]
fn probe_d2_aspa_read_payload() {
    let w: [u8; 8] = kani::any();
    let v: u8 = kani::any();
    let fl: u8 = kani::any();
    let h = pdu::Header::new(v, 11, (fl as u16) << 8, 16);
    let mut rd = ChunkReader::new(&w, false, 0);
    let back = block_on(pdu::Aspa::read_payload(h, &mut rd), 2).unwrap().unwrap();
    kani::cover!(w[7] == 7);
    assert!(rd.consumed() == 8);
    assert!(back.customer().into_u32() == be32(&w, 0));
    assert!(back.providers().asn_count() == 1);
    std::mem::forget(back);
}

/// @tier exp
/// @says probe aspa read_payload with by-value header, slice reader
#[kani::proof]
#[kani::unwind(3)]
fn probe_d3_aspa_read_payload() {
    let w: [u8; 8] = kani::any();
    let v: u8 = kani::any();
    let fl: u8 = kani::any();
    let h = pdu::Header::new(v, 11, (fl as u16) << 8, 16);
    let mut rd = &w[..];
    let back = block_on(pdu::Aspa::read_payload(h, &mut rd), 1).unwrap().unwrap();
    kani::cover!(w[7] == 7);
    assert!(rd.len() == 0);
    assert!(back.customer().into_u32() == be32(&w, 0));
    assert!(back.providers().len() == 4);
    std::mem::forget(back);
}

/// @tier exp
/// @says probe aspa read_payload with by-value header, slice reader, no provider
#[kani::proof]
#[kani::unwind(3)]
fn probe_d4_aspa_read_payload0() {
    let w: [u8; 4] = kani::any();
    let v: u8 = kani::any();
    let fl: u8 = kani::any();
    let h = pdu::Header::new(v, 11, (fl as u16) << 8, 12);
    let mut rd = &w[..];
    let back = block_on(pdu::Aspa::read_payload(h, &mut rd), 1).unwrap().unwrap();
    kani::cover!(w[3] == 7);
    assert!(rd.len() == 0);
    assert!(back.customer().into_u32() == be32(&w, 0));
    assert!(back.providers().len() == 0);
    std::mem::forget(back);
}

use tokio::io::AsyncReadExt;

/// @tier exp
/// @says probe s1
#[kani::proof]
#[kani::unwind(3)]
fn probe_s1() {
    let w: [u8; 4] = kani::any();
    let mut rd = &w[..];
    let mut v = vec![0u8; 4];
    block_on(rd.read_exact(v.as_mut()), 1).unwrap().unwrap();
    assert!(v[0] == w[0] && v[3] == w[3]);
    std::mem::forget(v);
}

/// @tier exp
/// @says probe s2
#[kani::proof]
#[kani::unwind(3)]
fn probe_s2() {
    let w: [u8; 4] = kani::any();
    let mut rd = &w[..];
    let mut v = vec![0u8; 4];
    block_on(rd.read_exact(v.as_mut()), 1).unwrap().unwrap();
    let b: Bytes = v.into();
    assert!(b.as_ref()[0] == w[0] && b.len() == 4);
    std::mem::forget(b);
}

/// @tier exp
/// @says probe s3
#[kani::proof]
#[kani::unwind(3)]
fn probe_s3() {
    let w: [u8; 4] = kani::any();
    let v: u8 = kani::any();
    let h = pdu::Header::new(v, 4, 0, 20);
    let r = h.pdu_len();
    let l = r.unwrap().checked_sub(12).unwrap();
    assert!(l == 8);
}

/// @tier exp
/// @says probe s4 v4 read_payload
#[kani::proof]
#[kani::unwind(3)]
fn probe_s4() {
    let w: [u8; 12] = kani::any();
    let v: u8 = kani::any();
    let h = pdu::Header::new(v, 4, 0, 20);
    let mut rd = &w[..];
    let back = block_on(pdu::Ipv4Prefix::read_payload(h, &mut rd), 1).unwrap().unwrap();
    assert!(back.asn().into_u32() == be32(&w, 8));
}

/// @tier exp
/// @says probe router key read_payload, 0 key bytes
#[kani::proof]
#[kani::unwind(3)]
fn probe_r0() {
    let w: [u8; 24] = kani::any();
    let v: u8 = kani::any();
    let h = pdu::Header::new(v, 9, 0, 32);
    let mut rd = &w[..];
    let back = block_on(pdu::RouterKey::read_payload(h, &mut rd), 1).unwrap().unwrap();
    assert!(back.asn().into_u32() == be32(&w, 20));
    std::mem::forget(back);
}

/// @tier exp
/// @says probe aspa: result not unwrapped
#[kani::proof]
#[kani::unwind(3)]
fn probe_d5() {
    let w: [u8; 4] = kani::any();
    let v: u8 = kani::any();
    let h = pdu::Header::new(v, 11, 0, 12);
    let mut rd = &w[..];
    let back = block_on(pdu::Aspa::read_payload(h, &mut rd), 1);
    match back {
        Some(Ok(ref a)) => { assert!(a.customer().into_u32() == be32(&w, 0)); }
        _ => {}
    }
    std::mem::forget(back);
}

async fn my_read<S: tokio::io::AsyncRead + Unpin>(sock: &mut S, len: usize) -> Result<Bytes, std::io::Error> {
    let mut v = vec![0u8; len];
    sock.read_exact(v.as_mut()).await?;
    Ok(v.into())
}
async fn my_read_vec<S: tokio::io::AsyncRead + Unpin>(sock: &mut S, len: usize) -> Result<Vec<u8>, std::io::Error> {
    let mut v = vec![0u8; len];
    sock.read_exact(v.as_mut()).await?;
    Ok(v)
}
async fn my_read_noq<S: tokio::io::AsyncRead + Unpin>(sock: &mut S, len: usize) -> Vec<u8> {
    let mut v = vec![0u8; len];
    let _ = sock.read_exact(v.as_mut()).await;
    v
}

/// @tier exp
/// @says probe t1
#[kani::proof]
#[kani::unwind(3)]
fn probe_t1() {
    let w: [u8; 4] = kani::any();
    let mut rd = &w[..];
    let b = block_on(my_read(&mut rd, 4), 1).unwrap().unwrap();
    assert!(b.as_ref()[0] == w[0] && b.len() == 4);
    std::mem::forget(b);
}
/// @tier exp
/// @says probe t2
#[kani::proof]
#[kani::unwind(3)]
fn probe_t2() {
    let w: [u8; 4] = kani::any();
    let mut rd = &w[..];
    let b = block_on(my_read_vec(&mut rd, 4), 1).unwrap().unwrap();
    assert!(b[0] == w[0] && b.len() == 4);
    std::mem::forget(b);
}
/// @tier exp
/// @says probe t3
#[kani::proof]
#[kani::unwind(3)]
fn probe_t3() {
    let w: [u8; 4] = kani::any();
    let mut rd = &w[..];
    let b = block_on(my_read_noq(&mut rd, 4), 1).unwrap();
    assert!(b[0] == w[0] && b.len() == 4);
    std::mem::forget(b);
}

#[derive(Default, Clone, Copy)]
#[repr(C, packed)]
struct MyFixed { header: [u8; 8], customer: u32 }
impl MyFixed {
    fn as_mut(&mut self) -> &mut [u8] {
        unsafe { std::slice::from_raw_parts_mut(self as *mut Self as *mut u8, 12) }
    }
}
struct MyAspa { fixed: MyFixed, providers: Bytes }

async fn my_read_payload<S: tokio::io::AsyncRead + Unpin>(header: pdu::Header, sock: &mut S) -> Result<MyAspa, std::io::Error> {
    let provider_len = match header.pdu_len()?.checked_sub(12) {
        Some(len) => {
            if len % 4 != 0 {
                return Err(std::io::Error::new(std::io::ErrorKind::InvalidData, "invalid length for ASPA PDU"))
            }
            len
        }
        None => {
            return Err(std::io::Error::new(std::io::ErrorKind::InvalidData, "invalid length for ASPA PDU"))
        }
    };
    let mut fixed = MyFixed { header: [0; 8], .. Default::default() };
    sock.read_exact(&mut fixed.as_mut()[8..]).await?;
    let providers = my_read(sock, provider_len).await?;
    Ok(MyAspa { fixed, providers })
}

async fn my_read_payload2<S: tokio::io::AsyncRead + Unpin>(header: pdu::Header, sock: &mut S) -> Result<MyAspa, std::io::Error> {
    let provider_len = header.length() as usize - 12;
    let mut fixed = MyFixed { header: [0; 8], .. Default::default() };
    sock.read_exact(&mut fixed.as_mut()[8..]).await?;
    let providers = my_read(sock, provider_len).await?;
    Ok(MyAspa { fixed, providers })
}

/// @tier exp
/// @says probe u1
#[kani::proof]
#[kani::unwind(3)]
fn probe_u1() {
    let w: [u8; 8] = kani::any();
    let v: u8 = kani::any();
    let h = pdu::Header::new(v, 11, 0, 16);
    let mut rd = &w[..];
    let b = block_on(my_read_payload(h, &mut rd), 1).unwrap().unwrap();
    assert!(b.providers.len() == 4);
    std::mem::forget(b);
}
/// @tier exp
/// @says probe u2
#[kani::proof]
#[kani::unwind(3)]
fn probe_u2() {
    let w: [u8; 8] = kani::any();
    let v: u8 = kani::any();
    let h = pdu::Header::new(v, 11, 0, 16);
    let mut rd = &w[..];
    let b = block_on(my_read_payload2(h, &mut rd), 1).unwrap().unwrap();
    assert!(b.providers.len() == 4);
    std::mem::forget(b);
}

async fn my_two_reads<S: tokio::io::AsyncRead + Unpin>(sock: &mut S) -> Result<(Bytes, Bytes), std::io::Error> {
    let a = my_read(sock, 4).await?;
    let b = my_read(sock, 4).await?;
    Ok((a, b))
}
async fn my_two_fixed<S: tokio::io::AsyncRead + Unpin>(sock: &mut S) -> Result<(MyFixed, MyFixed), std::io::Error> {
    let mut fixed = MyFixed { header: [0; 8], .. Default::default() };
    sock.read_exact(&mut fixed.as_mut()[8..]).await?;
    let mut fixed2 = MyFixed { header: [0; 8], .. Default::default() };
    sock.read_exact(&mut fixed2.as_mut()[8..]).await?;
    Ok((fixed, fixed2))
}
async fn my_fixed_then_vec<S: tokio::io::AsyncRead + Unpin>(sock: &mut S) -> Result<(MyFixed, Vec<u8>), std::io::Error> {
    let mut fixed = MyFixed { header: [0; 8], .. Default::default() };
    sock.read_exact(&mut fixed.as_mut()[8..]).await?;
    let mut v = vec![0u8; 4];
    sock.read_exact(v.as_mut()).await?;
    Ok((fixed, v))
}

/// @tier exp
/// @says probe u3
#[kani::proof]
#[kani::unwind(3)]
fn probe_u3() {
    let w: [u8; 8] = kani::any();
    let mut rd = &w[..];
    let b = block_on(my_two_reads(&mut rd), 1).unwrap().unwrap();
    assert!(b.1.len() == 4);
    std::mem::forget(b);
}
/// @tier exp
/// @says probe u4
#[kani::proof]
#[kani::unwind(3)]
fn probe_u4() {
    let w: [u8; 8] = kani::any();
    let mut rd = &w[..];
    let b = block_on(my_two_fixed(&mut rd), 1).unwrap().unwrap();
    assert!(b.1.customer == u32::from_ne_bytes([w[4], w[5], w[6], w[7]]));
}
/// @tier exp
/// @says probe u5
#[kani::proof]
#[kani::unwind(3)]
fn probe_u5() {
    let w: [u8; 8] = kani::any();
    let mut rd = &w[..];
    let b = block_on(my_fixed_then_vec(&mut rd), 1).unwrap().unwrap();
    assert!(b.1.len() == 4);
    std::mem::forget(b);
}

async fn my_fixed_then_nested_vec<S: tokio::io::AsyncRead + Unpin>(sock: &mut S) -> Result<(MyFixed, Vec<u8>), std::io::Error> {
    let mut fixed = MyFixed { header: [0; 8], .. Default::default() };
    sock.read_exact(&mut fixed.as_mut()[8..]).await?;
    let v = my_read_vec(sock, 4).await?;
    Ok((fixed, v))
}
/// @tier exp
/// @says probe u6
#[kani::proof]
#[kani::unwind(3)]
fn probe_u6() {
    let w: [u8; 8] = kani::any();
    let mut rd = &w[..];
    let b = block_on(my_fixed_then_nested_vec(&mut rd), 1).unwrap().unwrap();
    assert!(b.1.len() == 4);
    std::mem::forget(b);
}

/// @tier exp
/// @says probe write only
#[kani::proof]
#[kani::unwind(6)]
fn probe_a_router_key_write() {
    const N: usize = 4;
    let ki: [u8; 20] = kani::any();
    let asn: u32 = kani::any();
    let info: [u8; N] = kani::any();
    let v: u8 = kani::any();
    kani::assume(v >= 1);
    let key = payload::RouterKey::new(
        ki.into(), Asn::from_u32(asn),
        RouterKeyInfo::new(Bytes::copy_from_slice(&info)).unwrap());
    let p = Payload::new_if_supported(v, Action::Announce.into_flags(),
                                      PayloadRef::RouterKey(&key)).unwrap();
    let mut wire = ArrayWriter::<48>::new();
    block_on(p.write(&mut wire), 1).unwrap().unwrap();
    assert_eq!(wire.len, 32 + N);
    kani::cover!(wire.buf[35] == 7);
    assert!(wire.buf[35] == info[3]);
    std::mem::forget(p);
    std::mem::forget(key);
}

/// @tier exp
/// @says probe rsync parse 12 bytes
#[kani::proof]
#[kani::unwind(14)]
fn probe_rsync12() {
    let mut b: [u8; 12] = kani::any();
    b[0] = b'r'; b[1] = b's'; b[2] = b'y'; b[3] = b'n'; b[4] = b'c'; b[5] = b':'; b[6] = b'/'; b[7] = b'/';
    let r = rpki::uri::Rsync::from_slice(&b);
    kani::cover!(r.is_ok());
    if let Ok(u) = &r {
        assert!(u.as_slice().len() == 12);
    }
    std::mem::forget(r);
}

/// @tier exp
/// @says probe payload read of ipv4 prefix, slice reader
#[kani::proof]
#[kani::unwind(3)]
fn probe_e2_payload_read_v4() {
    let mut w: [u8; 20] = kani::any();
    w[1] = 4;
    w[4] = 0; w[5] = 0; w[6] = 0; w[7] = 20;
    let mut rd = &w[..];
    let back = block_on(pdu::Payload::read(&mut rd), 1).unwrap().unwrap();
    kani::cover!(w[15] == 7);
    match back {
        Ok(Some(Payload::V4(ref k))) => {
            assert!(k.asn().into_u32() == be32(&w, 16));
        }
        _ => panic!("wrong kind"),
    }
    std::mem::forget(back);
}

/// @tier exp
/// @says probe payload read of end of data, slice reader
#[kani::proof]
#[kani::unwind(3)]
fn probe_e3_payload_read_eod() {
    let mut w: [u8; 24] = kani::any();
    w[0] = 1;
    w[1] = 7;
    w[4] = 0; w[5] = 0; w[6] = 0; w[7] = 24;
    let mut rd = &w[..];
    let back = block_on(pdu::Payload::read(&mut rd), 1).unwrap().unwrap();
    kani::cover!(w[15] == 7);
    match back {
        Err(ref e) => {
            assert!(e.state().serial().0 == be32(&w, 8));
        }
        _ => panic!("wrong kind"),
    }
    std::mem::forget(back);
}
