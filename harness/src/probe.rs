//! scratch probes (not part of any property)
use crate::util::*;
use rpki::rtr::pdu::{self, *};
use std::io;

fn mk(b: u8) -> Result<u8, io::Error> {
    if b > 3 { Err(io::Error::new(io::ErrorKind::InvalidData, "bad")) } else { Ok(b) }
}

/// @tier quick
/// @says io error creation cost
#[kani::proof]
#[kani::unwind(3)]
fn p1_ioerr() {
    let b: u8 = kani::any();
    let r = mk(b);
    kani::cover!(r.is_err());
    assert!(r.is_err() == (b > 3));
    std::mem::forget(r);
}

/// @tier quick
/// @says header read only
#[kani::proof]
#[kani::unwind(5)]
fn p2_header_read() {
    let data: [u8; 12] = kani::any();
    let mut rd: &[u8] = &data;
    let res = block_on(Header::read(&mut rd), 2).unwrap();
    kani::cover!(res.is_ok());
    assert!(res.is_ok());
    std::mem::forget(res);
}

/// @tier quick
/// @says payload read other type
#[kani::proof]
#[kani::unwind(5)]
fn p3_other_type() {
    let mut data: [u8; 12] = kani::any();
    data[1] = 10;
    let mut rd: &[u8] = &data;
    let res = block_on(Payload::read(&mut rd), 2).unwrap();
    kani::cover!(res.is_err());
    assert!(res.is_err());
    std::mem::forget(res);
}

/// @tier quick
/// @says router key read of concrete wire
#[kani::proof]
#[kani::unwind(3)]
fn p4_rk_read() {
    let mut data: [u8; 33] = kani::any();
    data[1] = 9; data[4] = 0; data[5] = 0; data[6] = 0; data[7] = 33;
    let mut rd: &[u8] = &data;
    let res = block_on(RouterKey::read(&mut rd), 1).unwrap();
    kani::cover!(res.is_ok());
    assert!(res.is_ok());
    std::mem::forget(res);
}

/// @tier quick
/// @says aspa read of concrete wire
#[kani::proof]
#[kani::unwind(5)]
fn p5_aspa_read() {
    let mut data: [u8; 16] = kani::any();
    data[1] = 11; data[4] = 0; data[5] = 0; data[6] = 0; data[7] = 16;
    let mut rd: &[u8] = &data;
    let res = block_on(Aspa::read(&mut rd), 2).unwrap();
    kani::cover!(res.is_ok());
    assert!(res.is_ok());
    std::mem::forget(res);
}

/// @tier quick
/// @says Bytes::from(vec) with symbolic len
#[kani::proof]
#[kani::unwind(5)]
fn p6_bytes_from_vec() {
    let n: usize = kani::any();
    kani::assume(n <= 64);
    let v = vec![0u8; n];
    let b: bytes::Bytes = v.into();
    kani::cover!(b.len() == 7);
    assert!(b.len() == n);
    std::mem::forget(b);
}

/// @tier quick
/// @says vec zeroed symbolic len + read_exact
#[kani::proof]
#[kani::unwind(5)]
fn p7_vec_read_exact() {
    use tokio::io::AsyncReadExt;
    let data: [u8; 16] = kani::any();
    let n: usize = kani::any();
    kani::assume(n <= 64);
    let mut v = vec![0u8; n];
    let mut rd: &[u8] = &data;
    let res = block_on(rd.read_exact(v.as_mut()), 2).unwrap();
    kani::cover!(res.is_ok());
    assert!(res.is_ok() == (n <= 16));
    std::mem::forget(res);
    std::mem::forget(v);
}
