//! C08 — RTR server answers depend on the query bytes, not on how they
//! arrive.
//!
//! The private `Connection` is reached through the hook
//! `rpki::rtr::server::verif::Conn` (cfg rpki_verif).  The socket is an
//! in-memory duplex (`Sock`): its read half hands out an owned byte array in
//! solver-chosen fragments (one byte or all that fits, optionally `Pending`
//! in between, EOF at the end), its write half appends to a fixed array.
//! Update notifications: a connection made by the hook has no broadcast
//! channel (tokio's broadcast receiver cannot be compiled by Kani); instead
//! the k-th poll of `NotifyReceiver::recv` completes iff bit k of the
//! solver-chosen `NOTIFY_SCHEDULE` is set, so every interleaving of "notify
//! fires" with the arrival of query fragments is a solver variable.
//! The data source is a small array-backed `PayloadSource` with 0-2 IPv4
//! origins (fixed-layout PDUs only; see DESIGN §3 C07 for why the
//! variable-length PDUs are out of reach).
//! @jobs 4 @mem_gb 8 @quick_timeout 600 @thorough_timeout 3600 @thorough_mem_gb 40 @thorough_jobs 1
use crate::util::*;
use rpki::resources::addr::{MaxLenPrefix, Prefix};
use rpki::resources::asn::Asn;
use rpki::rtr::payload::{Action, PayloadRef, RouteOrigin, Timing};
use rpki::rtr::pdu;
use rpki::rtr::server::verif::{self, Conn, VQuery};
use rpki::rtr::server::{PayloadDiff, PayloadSet, PayloadSource, Socket};
use rpki::rtr::state::{Serial, State};
use std::io;
use std::net::Ipv4Addr;
use std::pin::Pin;
use std::task::{Context, Poll};
use tokio::io::{AsyncRead, AsyncWrite, ReadBuf};

//------------ in-memory duplex socket ---------------------------------------

pub struct Sock<const N: usize, const M: usize> {
    pub input: [u8; N],
    pub in_len: usize,
    pub pos: usize,
    pub fragment: bool,
    pub pending_left: u8,
    pub eof_reads: u32,
    pub out: [u8; M],
    pub out_len: usize,
}

impl<const N: usize, const M: usize> Sock<N, M> {
    pub fn new(input: [u8; N], in_len: usize, fragment: bool, pending: u8)
        -> Self {
        Sock { input, in_len, pos: 0, fragment, pending_left: pending,
               eof_reads: 0, out: [0u8; M], out_len: 0 }
    }
}

impl<const N: usize, const M: usize> AsyncRead for Sock<N, M> {
    fn poll_read(
        mut self: Pin<&mut Self>, _cx: &mut Context<'_>,
        buf: &mut ReadBuf<'_>,
    ) -> Poll<io::Result<()>> {
        if self.pending_left > 0 && kani::any() {
            self.pending_left -= 1;
            return Poll::Pending;
        }
        let left = self.in_len - self.pos;
        let room = buf.remaining();
        if left == 0 || room == 0 {
            if left == 0 && room > 0 {
                self.eof_reads += 1;
                if self.eof_reads > 3 {
                    panic!("reader spins on a closed stream");
                }
            }
            return Poll::Ready(Ok(()));
        }
        let max = if left < room { left } else { room };
        let n = if self.fragment && kani::any() { 1 } else { max };
        let pos = self.pos;
        buf.put_slice(&self.input[pos..pos + n]);
        self.pos += n;
        Poll::Ready(Ok(()))
    }
}

impl<const N: usize, const M: usize> AsyncWrite for Sock<N, M> {
    fn poll_write(
        mut self: Pin<&mut Self>, _cx: &mut Context<'_>, src: &[u8],
    ) -> Poll<io::Result<usize>> {
        let l = self.out_len;
        let n = src.len();
        assert!(l + n <= M, "harness sink too small");
        self.out[l..l + n].copy_from_slice(src);
        self.out_len = l + n;
        Poll::Ready(Ok(n))
    }
    fn poll_flush(self: Pin<&mut Self>, _cx: &mut Context<'_>)
        -> Poll<io::Result<()>> {
        Poll::Ready(Ok(()))
    }
    fn poll_shutdown(self: Pin<&mut Self>, _cx: &mut Context<'_>)
        -> Poll<io::Result<()>> {
        Poll::Ready(Ok(()))
    }
}

impl<const N: usize, const M: usize> Socket for Sock<N, M> {}

//------------ array-backed payload source -----------------------------------

#[derive(Clone, Copy)]
pub struct Src {
    pub ready: bool,
    pub state: State,
    pub has_diff: bool,
    pub n: usize,
    pub items: [RouteOrigin; 2],
    pub actions: [Action; 2],
    pub timing: Timing,
}

pub struct Iter {
    src: Src,
    next: usize,
}

impl PayloadSet for Iter {
    fn next(&mut self) -> Option<PayloadRef<'_>> {
        if self.next >= self.src.n {
            return None;
        }
        let i = self.next;
        self.next += 1;
        Some(PayloadRef::Origin(self.src.items[i]))
    }
}

impl PayloadDiff for Iter {
    fn next(&mut self) -> Option<(PayloadRef<'_>, Action)> {
        if self.next >= self.src.n {
            return None;
        }
        let i = self.next;
        self.next += 1;
        Some((PayloadRef::Origin(self.src.items[i]), self.src.actions[i]))
    }
}

impl PayloadSource for Src {
    type Set = Iter;
    type Diff = Iter;
    fn ready(&self) -> bool {
        self.ready
    }
    fn notify(&self) -> State {
        self.state
    }
    fn full(&self) -> (State, Iter) {
        (self.state, Iter { src: *self, next: 0 })
    }
    fn diff(&self, _state: State) -> Option<(State, Iter)> {
        if self.has_diff {
            Some((self.state, Iter { src: *self, next: 0 }))
        } else {
            None
        }
    }
    fn timing(&self) -> Timing {
        self.timing
    }
}

fn any_v4_origin() -> (RouteOrigin, u32, u8, u8, u32) {
    let len: u8 = kani::any();
    kani::assume(len <= 32);
    let a: u32 = kani::any();
    let lo = a & !host_mask_v4(len);
    let ml: u8 = kani::any();
    kani::assume(ml >= len && ml <= 32);
    let asn: u32 = kani::any();
    let p = Prefix::new_v4(Ipv4Addr::from(lo), len).unwrap();
    let o = RouteOrigin::new(MaxLenPrefix::new(p, Some(ml)).unwrap(),
                             Asn::from_u32(asn));
    (o, lo, len, ml, asn)
}

fn dummy_src() -> Src {
    let p = Prefix::new_v4(Ipv4Addr::from(0), 0).unwrap();
    let o = RouteOrigin::new(MaxLenPrefix::new(p, None).unwrap(),
                             Asn::from_u32(0));
    Src { ready: true, state: State::from_parts(0, Serial(0)),
          has_diff: false, n: 0, items: [o, o],
          actions: [Action::Announce, Action::Announce],
          timing: Timing { refresh: 1, retry: 2, expire: 3 } }
}

fn any_version_state() -> Option<u8> {
    if kani::any() { Some(kani::any()) } else { None }
}

/// Reference for `check_version`: `Err((answer version, code))` or the
/// version the connection is on afterwards.
fn ref_version(cur: Option<u8>, v: u8) -> Result<u8, (u8, u16)> {
    match cur {
        Some(c) if c != v => Err((c, 8)),
        Some(c) => Ok(c),
        None if v > 2 => Err((2, 4)),
        None => Ok(v),
    }
}

/// The Error PDU must answer with `version`, carry `code`, and encapsulate
/// exactly the 8 offending header bytes.
fn check_error_pdu(err: &pdu::Error, version: u8, code: u16, hdr: &[u8]) {
    let b: &[u8] = err.as_ref();
    assert!(b.len() >= 24);
    assert!(b[0] == version && b[1] == 10 && be16(b, 2) == code);
    assert!(be32(b, 4) as usize == b.len());
    assert!(be32(b, 8) == 8);
    assert!(be32(b, 12) == be32(hdr, 0) && be32(b, 16) == be32(hdr, 4));
    assert!(be32(b, 20) as usize == b.len() - 24);
}

//------------ recv: classification of one query ------------------------------

fn recv_body(pdu_type: Option<u8>) { recv_body_x(pdu_type, true, 2, 16) }

fn recv_body_x(pdu_type: Option<u8>, fragment: bool, max_pending: u8,
               polls: usize) {
    let mut w: [u8; 12] = kani::any();
    if let Some(t) = pdu_type {
        w[1] = t;
    } else {
        kani::assume(w[1] != 1 && w[1] != 2 && w[1] != 10);
    }
    let cur = any_version_state();
    let pending: u8 = kani::any();
    kani::assume(pending <= max_pending);
    let sock = Sock::<12, 1>::new(w, 12, fragment, pending);
    let mut conn = Conn::new(sock, dummy_src());
    conn.set_version(cur);
    let res = block_on(conn.recv(), polls);
    let res = match res { Some(r) => r, None => panic!("recv stalls") };
    let used = conn.sock().pos;
    let vres = ref_version(cur, w[0]);
    let len = be32(&w, 4);
    kani::cover!(cur.is_none() && w[0] == 2 && len == 12);
    kani::cover!(cur == Some(1) && w[0] == 0);
    kani::cover!(cur.is_none() && w[0] == 3);
    kani::cover!(len == 8);
    match vres {
        Err((av, code)) => {
            assert!(used == 8);
            assert!(conn.version() == cur);
            match res {
                Ok(Some(VQuery::Error(ref e))) =>
                    check_error_pdu(e, av, code, &w[..8]),
                _ => panic!("version violation must be answered by an \
                             Error PDU"),
            }
        }
        Ok(v) => {
            assert!(conn.version() == Some(v));
            match w[1] {
                1 => {
                    if len == 12 {
                        assert!(used == 12);
                        match res {
                            Ok(Some(VQuery::Serial(st))) => {
                                assert!(st.session() == be16(&w, 2));
                                assert!(st.serial().0 == be32(&w, 8));
                            }
                            _ => panic!("serial query not recognised"),
                        }
                    } else {
                        assert!(used == 8);
                        match res {
                            Ok(Some(VQuery::Error(ref e))) =>
                                check_error_pdu(e, w[0], 3, &w[..8]),
                            _ => panic!("bad length must be answered by \
                                         an Error PDU"),
                        }
                    }
                }
                2 => {
                    assert!(used == 8);
                    if len == 8 {
                        assert!(matches!(res, Ok(Some(VQuery::Reset))));
                    } else {
                        match res {
                            Ok(Some(VQuery::Error(ref e))) =>
                                check_error_pdu(e, w[0], 3, &w[..8]),
                            _ => panic!("bad length must be answered by \
                                         an Error PDU"),
                        }
                    }
                }
                10 => {
                    assert!(used == 8);
                    assert!(res.is_err());
                }
                _ => {
                    assert!(used == 8);
                    match res {
                        Ok(Some(VQuery::Error(ref e))) =>
                            check_error_pdu(e, w[0], 3, &w[..8]),
                        _ => panic!("unsupported PDU must be answered by \
                                     an Error PDU"),
                    }
                }
            }
        }
    }
    std::mem::forget(res);
    std::mem::forget(conn);
}

/// @tier off
/// @fn rpki::rtr::server::Connection::recv rpki::rtr::server::Connection::check_version
///   rpki::rtr::server::Connection::check_length rpki::rtr::pdu::Header::read
///   rpki::rtr::pdu::SerialQueryPayload::read rpki::rtr::pdu::Error::new
/// @bounds one 12-byte client stream whose PDU type is Serial Query, every
///   other byte arbitrary (version, session, length field, serial); arbitrary
///   connection version state (not negotiated / any u8); the bytes arrive
///   unfragmented, notify never fires; unwind 3
/// @says the query the server acts on is a function of the bytes: a Serial
///   Query with length 12 yields (session, serial) from the bytes and
///   consumes 12 bytes; any other length, a version other than the negotiated
///   one, or a first version above 2 yields an Error PDU (code 3 / 8 / 4,
///   answering version, the 8 header bytes encapsulated) after exactly 8
///   bytes; the negotiated version is set by the first acceptable header
///   and never changed afterwards
/// @out fragmentation and notify interleavings (the point of the property):
///   one unfragmented call already needs 18 GB / 4 min, see DESIGN section 3 C08
#[kani::proof]
#[kani::unwind(3)]
fn recv_serial_query_unfragmented() { recv_body_x(Some(1), false, 0, 1); }

/// @tier off
/// @fn rpki::rtr::server::Connection::recv rpki::rtr::server::Connection::check_version
///   rpki::rtr::server::Connection::check_length
/// @bounds as recv_serial_query_unfragmented with PDU type Reset Query
/// @says a Reset Query with length 8 is recognised after exactly 8 bytes,
///   any other length / version violation is answered by the Error PDU
/// @out fragmentation and notify interleavings
#[kani::proof]
#[kani::unwind(3)]
fn recv_reset_query_unfragmented() { recv_body_x(Some(2), false, 0, 1); }

/// @tier off
/// @fn rpki::rtr::server::Connection::recv rpki::rtr::server::Connection::check_version
/// @bounds as recv_serial_query_unfragmented with every PDU type other than
///   1 and 2 (type 10 in its own case)
/// @says any PDU type that is not a query is answered by an Error PDU with
///   code 3 encapsulating the header (after the version check), an Error
///   PDU from the client ends the connection with an error; exactly 8 bytes
///   are consumed
/// @out fragmentation and notify interleavings
#[kani::proof]
#[kani::unwind(3)]
fn recv_other_pdu_unfragmented() {
    if kani::any() { recv_body_x(Some(10), false, 0, 1) }
    else { recv_body_x(None, false, 0, 1) }
}

/// @tier quick thorough
/// @fn rpki::rtr::server::Connection::check_version rpki::rtr::pdu::Error::new
///   rpki::rtr::pdu::Header::read
/// @bounds every 8-byte header, every version state of the connection (not
///   negotiated yet, or any u8); one step of the connection state machine
///   from an arbitrary state; unwind 3
/// @says version negotiation is a function of (state, header bytes): the
///   first header fixes the version if it is at most 2 and is otherwise
///   answered by Error code 4 with version 2; afterwards any other version
///   is answered by Error code 8 with the negotiated version; the Error PDU
///   encapsulates exactly the 8 offending bytes and its length fields are
///   consistent; a refused header never changes the state
/// @out that recv applies this step to every header it reads is by reading
///   only: the harnesses that run recv itself did not finish (kept off)
#[kani::proof]
#[kani::unwind(3)]
fn version_check_one_step() {
    let w: [u8; 8] = kani::any();
    let cur = any_version_state();
    let sock = Sock::<12, 1>::new([0; 12], 12, false, 0);
    let mut conn = Conn::new(sock, dummy_src());
    conn.set_version(cur);
    let mut rd = &w[..];
    let h = block_on(pdu::Header::read(&mut rd), 1).unwrap().unwrap();
    let r = conn.check_version(h);
    kani::cover!(cur.is_none() && w[0] == 3);
    kani::cover!(cur == Some(1) && w[0] == 2);
    kani::cover!(cur.is_none() && w[0] == 2);
    match ref_version(cur, w[0]) {
        Err((av, code)) => {
            match r {
                Err(ref e) => check_error_pdu(e, av, code, &w[..8]),
                _ => panic!("version violation accepted"),
            }
            assert!(conn.version() == cur);
        }
        Ok(v) => { assert!(r.is_ok() && conn.version() == Some(v)); }
    }
    std::mem::forget(r);
    std::mem::forget(conn);
}

/// @tier quick thorough
/// @fn rpki::rtr::server::Connection::check_length rpki::rtr::pdu::Error::new
/// @bounds every 8-byte header, every expected length (u32); unwind 3
/// @says a query whose length field differs from the size of its PDU type
///   is answered by Error code 3 under the header's own version with the
///   header encapsulated; an exact length is accepted
#[kani::proof]
#[kani::unwind(3)]
fn length_check_one_step() {
    let w: [u8; 8] = kani::any();
    let expected: u32 = kani::any();
    let mut rd = &w[..];
    let h = block_on(pdu::Header::read(&mut rd), 1).unwrap().unwrap();
    let r = Conn::<Sock<12, 1>, Src>::check_length(h, expected);
    kani::cover!(be32(&w, 4) == 12 && expected == 12);
    kani::cover!(be32(&w, 4) == 13 && expected == 12);
    if be32(&w, 4) == expected {
        assert!(r.is_ok());
    } else {
        match r {
            Err(ref e) => check_error_pdu(e, w[0], 3, &w[..8]),
            _ => panic!("wrong length accepted"),
        }
    }
    std::mem::forget(r);
}

//------------ notification while a header is half-read -----------------------

/// Stream of `N` bytes that arrives in two pieces: the first `cut` bytes,
/// then one `Pending`, then the rest, then end of stream.
pub struct TwoPiece<const N: usize> {
    pub input: [u8; N],
    pub pos: usize,
    pub cut: usize,
    pub stalled: bool,
    pub eof_reads: u32,
}

impl<const N: usize> AsyncRead for TwoPiece<N> {
    fn poll_read(
        mut self: Pin<&mut Self>, _cx: &mut Context<'_>,
        buf: &mut ReadBuf<'_>,
    ) -> Poll<io::Result<()>> {
        if self.pos == self.cut && !self.stalled {
            self.stalled = true;
            return Poll::Pending;
        }
        let end = if self.pos < self.cut { self.cut } else { N };
        let left = end - self.pos;
        let room = buf.remaining();
        if left == 0 || room == 0 {
            if left == 0 && room > 0 {
                self.eof_reads += 1;
                if self.eof_reads > 3 {
                    panic!("reader spins on a closed stream");
                }
            }
            return Poll::Ready(Ok(()));
        }
        let n = if left < room { left } else { room };
        let pos = self.pos;
        buf.put_slice(&self.input[pos..pos + n]);
        self.pos += n;
        Poll::Ready(Ok(()))
    }
}

fn notify_mid_header<const CUT: usize>() {
    let mut w: [u8; 8] = kani::any();
    w[1] = 2;
    let fire: bool = kani::any();
    unsafe {
        verif::NOTIFY_POLLS = 0;
        verif::NOTIFY_SCHEDULE = if fire { 0b10 } else { 0 };
    }
    let sock = TwoPiece::<8> { input: w, pos: 0, cut: CUT, stalled: false,
                               eof_reads: 0 };
    let mut conn = Conn::new(sock, ());
    let mut res = match block_on(conn.recv(), 2) {
        Some(r) => r, None => panic!("recv stalls"),
    };
    let mut notified = false;
    if let Ok(Some(VQuery::Notify)) = res {
        notified = true;
        res = match block_on(conn.recv(), 2) {
            Some(r) => r, None => panic!("recv stalls"),
        };
    }
    assert!(notified == fire);
    kani::cover!(fire);
    kani::cover!(!fire);
    // the query is a function of the eight bytes only
    let len = be32(&w, 4);
    if w[0] <= 2 && len == 8 {
        assert!(matches!(res, Ok(Some(VQuery::Reset))));
        assert!(conn.sock().pos == 8);
    }
    std::mem::forget(res);
    std::mem::forget(conn);
}

/// @tier off
/// @fn rpki::rtr::server::Connection::recv
/// @bounds 8 header bytes of a Reset Query arriving as 3 + 5 with one Pending
///   in between; the notify schedule fires on the second poll or never
/// @says (NOT DECIDED: out of 45 GB after 8 min) a notification that fires
///   while a header is half-read must not lose the bytes already read; kept
///   for the record, see DESIGN section 3 C08
#[kani::proof]
#[kani::unwind(3)]
fn notify_mid_header_cut3() { notify_mid_header::<3>() }

//------------ responses -------------------------------------------------------

fn any_src(max_n: usize) -> Src {
    let (o1, ..) = any_v4_origin();
    let (o2, ..) = any_v4_origin();
    let n: usize = kani::any();
    kani::assume(n <= max_n);
    let a1 = if kani::any() { Action::Announce } else { Action::Withdraw };
    let a2 = if kani::any() { Action::Announce } else { Action::Withdraw };
    Src { ready: kani::any(),
          state: State::from_parts(kani::any(), Serial(kani::any())),
          has_diff: kani::any(), n, items: [o1, o2], actions: [a1, a2],
          timing: Timing { refresh: kani::any(), retry: kani::any(),
                           expire: kani::any() } }
}

/// The version a connection can be on: not negotiated yet or 0..=2.
fn any_negotiated() -> Option<u8> {
    if kani::any() {
        let v: u8 = kani::any();
        kani::assume(v <= 2);
        Some(v)
    } else { None }
}

fn hdr_is(out: &[u8], off: usize, v: u8, pdu: u8, session: u16, len: u32)
    -> bool {
    out[off] == v && out[off + 1] == pdu && be16(out, off + 2) == session
        && be32(out, off + 4) == len
}

fn v4_pdu_is(out: &[u8], off: usize, v: u8, flags: u8, o: &RouteOrigin)
    -> bool {
    let p = o.prefix.prefix();
    let addr = match p.addr() {
        std::net::IpAddr::V4(a) => u32::from(a),
        _ => return false,
    };
    hdr_is(out, off, v, 4, 0, 20)
        && out[off + 8] == flags
        && out[off + 9] == p.len()
        && out[off + 10] == o.prefix.resolved_max_len()
        && out[off + 11] == 0
        && be32(out, off + 12) == addr
        && be32(out, off + 16) == o.asn.into_u32()
}

/// End of Data at `off`; returns the offset behind it.
fn eod_is(out: &[u8], off: usize, v: u8, st: State, t: Timing) -> usize {
    if v == 0 {
        assert!(hdr_is(out, off, 0, 7, st.session(), 12));
        assert!(be32(out, off + 8) == st.serial().0);
        off + 12
    } else {
        assert!(hdr_is(out, off, v, 7, st.session(), 24));
        assert!(be32(out, off + 8) == st.serial().0);
        assert!(be32(out, off + 12) == t.refresh);
        assert!(be32(out, off + 16) == t.retry);
        assert!(be32(out, off + 20) == t.expire);
        off + 24
    }
}

fn not_ready_is(out: &[u8], out_len: usize, v: u8) {
    // Error PDU, code 2 "No Data Available", no encapsulated PDU
    assert!(out_len >= 16);
    assert!(out[0] == v && out[1] == 10 && be16(out, 2) == 2);
    assert!(be32(out, 4) as usize == out_len);
    assert!(be32(out, 8) == 0);
    assert!(be32(out, 12) as usize == out_len - 16);
}

fn respond_reset_body(max_n: usize) {
    let src = any_src(max_n);
    let cur = any_negotiated();
    let sock = Sock::<1, 96>::new([0], 0, false, 0);
    let mut conn = Conn::new(sock, src);
    conn.set_version(cur);
    let res = block_on(conn.reset(), 1);
    assert!(matches!(res, Some(Ok(()))));
    let v = cur.unwrap_or(0);
    let out = &conn.sock().out;
    let out_len = conn.sock().out_len;
    kani::cover!(src.ready && src.n == max_n && v == 0);
    kani::cover!(src.ready && v == 2);
    kani::cover!(!src.ready);
    if !src.ready {
        not_ready_is(out, out_len, v);
    } else {
        assert!(hdr_is(out, 0, v, 3, src.state.session(), 8));
        let mut off = 8;
        if src.n >= 1 { assert!(v4_pdu_is(out, off, v, 1, &src.items[0])); off += 20; }
        if src.n >= 2 { assert!(v4_pdu_is(out, off, v, 1, &src.items[1])); off += 20; }
        let end = eod_is(out, off, v, src.state, src.timing);
        assert!(end == out_len);
    }
    std::mem::forget(res);
    std::mem::forget(conn);
}

/// @tier off
/// @fn rpki::rtr::server::Connection::reset rpki::rtr::pdu::CacheResponse::write
///   rpki::rtr::pdu::EndOfData::new rpki::rtr::pdu::Error::new
/// @bounds empty source, arbitrary readiness / session / serial / timing,
///   connection version not negotiated or 0..=2; in-memory sink; unwind 3
/// @says a Reset Query gets exactly one complete response: Cache Response,
///   End of Data in the form of the connection's version (12 or 24 bytes,
///   timing from the source) and nothing else; a source that is not ready
///   gets Error code 2
#[kani::proof]
#[kani::unwind(3)]
fn respond_reset_0() { respond_reset_body(0) }

/// @tier off
/// @fn rpki::rtr::server::Connection::reset rpki::rtr::pdu::Payload::new_if_supported
/// @bounds as respond_reset_0 with 0..=2 arbitrary IPv4 origins; unwind 4
/// @says every origin of the source appears exactly once, as an announcement,
///   in source order between Cache Response and End of Data
#[kani::proof]
#[kani::unwind(4)]
fn respond_reset_2() { respond_reset_body(2) }

fn respond_serial_body(max_n: usize) {
    let src = any_src(max_n);
    let cur = any_negotiated();
    let client = State::from_parts(kani::any(), Serial(kani::any()));
    let sock = Sock::<1, 96>::new([0], 0, false, 0);
    let mut conn = Conn::new(sock, src);
    conn.set_version(cur);
    let res = block_on(conn.serial(client), 1);
    assert!(matches!(res, Some(Ok(()))));
    let v = cur.unwrap_or(0);
    let out = &conn.sock().out;
    let out_len = conn.sock().out_len;
    kani::cover!(src.ready && src.has_diff && src.n == max_n);
    kani::cover!(src.ready && !src.has_diff);
    kani::cover!(!src.ready);
    if !src.ready {
        not_ready_is(out, out_len, v);
    } else if !src.has_diff {
        assert!(out_len == 8 && hdr_is(out, 0, v, 8, 0, 8));
    } else {
        assert!(hdr_is(out, 0, v, 3, src.state.session(), 8));
        let mut off = 8;
        if src.n >= 1 {
            let f = if matches!(src.actions[0], Action::Announce) { 1 } else { 0 };
            assert!(v4_pdu_is(out, off, v, f, &src.items[0])); off += 20;
        }
        if src.n >= 2 {
            let f = if matches!(src.actions[1], Action::Announce) { 1 } else { 0 };
            assert!(v4_pdu_is(out, off, v, f, &src.items[1])); off += 20;
        }
        let end = eod_is(out, off, v, src.state, src.timing);
        assert!(end == out_len);
    }
    std::mem::forget(res);
    std::mem::forget(conn);
}

/// @tier off
/// @fn rpki::rtr::server::Connection::serial rpki::rtr::pdu::CacheReset::write
/// @bounds as respond_reset_0 plus an arbitrary client state and an arbitrary
///   "diff available" answer of the source
/// @says a Serial Query gets exactly one response: Cache Reset (8 bytes) when
///   the source has no diff, otherwise Cache Response .. End of Data
#[kani::proof]
#[kani::unwind(3)]
fn respond_serial_0() { respond_serial_body(0) }

/// @tier off
/// @fn rpki::rtr::server::Connection::serial rpki::rtr::pdu::Payload::new_if_supported
/// @bounds as respond_serial_0 with 0..=2 arbitrary IPv4 origins and actions
/// @says every diff item appears once with its own action flag, in order
#[kani::proof]
#[kani::unwind(4)]
fn respond_serial_2() { respond_serial_body(2) }

/// @tier thorough
/// @fn rpki::rtr::server::Connection::notify rpki::rtr::pdu::SerialNotify::write
/// @bounds arbitrary source state, connection version not negotiated or 0..=2
/// @says an update notification is written as one 12-byte Serial Notify
///   carrying the source's session and serial under the connection's version
/// @out when notifications are written relative to responses (interleaving)
#[kani::proof]
#[kani::unwind(3)]
fn respond_notify() {
    let src = any_src(0);
    let cur = any_negotiated();
    let sock = Sock::<1, 16>::new([0], 0, false, 0);
    let mut conn = Conn::new(sock, src);
    conn.set_version(cur);
    let res = block_on(conn.notify(), 1);
    assert!(matches!(res, Some(Ok(()))));
    let v = cur.unwrap_or(0);
    let out = &conn.sock().out;
    assert!(conn.sock().out_len == 12);
    assert!(hdr_is(out, 0, v, 0, src.state.session(), 12));
    assert!(be32(out, 8) == src.state.serial().0);
    kani::cover!(v == 1);
    std::mem::forget(res);
    std::mem::forget(conn);
}

/// @tier thorough
/// @fn rpki::rtr::server::Connection::error rpki::rtr::pdu::Error::write
/// @bounds an Error PDU built from arbitrary version, code and 8 arbitrary
///   encapsulated header bytes with the text "invalid length"; in-memory
///   sink; unwind 3
/// @says the answer to a malformed query is written as exactly the octets
///   of the Error PDU, once, and nothing else
/// @out when it is written relative to notifications (interleaving)
#[kani::proof]
#[kani::unwind(3)]
fn respond_error() {
    let hdr: [u8; 8] = kani::any();
    let v: u8 = kani::any();
    let code: u16 = kani::any();
    let e = pdu::Error::new(v, code, hdr, "invalid length");
    let sock = Sock::<1, 48>::new([0], 0, false, 0);
    let mut conn = Conn::new(sock, dummy_src());
    let res = block_on(conn.error(e), 1);
    assert!(matches!(res, Some(Ok(()))));
    let out = &conn.sock().out;
    let n = conn.sock().out_len;
    assert!(n == 16 + 8 + 14);
    assert!(out[0] == v && out[1] == 10 && be16(out, 2) == code);
    assert!(be32(out, 4) as usize == n);
    assert!(be32(out, 8) == 8);
    assert!(be32(out, 12) == be32(&hdr, 0) && be32(out, 16) == be32(&hdr, 4));
    assert!(be32(out, 20) == 14);
    assert!(out[24] == b'i' && out[37] == b'h');
    kani::cover!(code == 3);
    std::mem::forget(res);
    std::mem::forget(conn);
}

/// @tier thorough
/// @expect fail C08-notify-mid-header
/// @fn rpki::rtr::server::Connection::recv rpki::rtr::pdu::Header::read
/// @bounds witness of a recorded finding, restricted to its failing class:
///   one recv call on a connection whose client sends the 8 octets of a
///   Reset Query (all but the type octet arbitrary) as 3 octets, a pause,
///   then 5; the notification fires on the second poll; unwind 3
/// @says when recv reports the notification, no octet of the client's query
///   may have been taken off the socket without being part of a returned
///   query (the connection has no field that could retain them).  On the
///   current tree three octets are gone: select() drops the Header::read
///   future together with what it has read, and the next recv misframes the
///   stream (native demonstration: replays/C08-notify_mid_header_native.rs)
/// @out every other fragmentation / schedule; the second recv call
#[kani::proof]
#[kani::unwind(3)]
fn notify_mid_header_takes_bytes() {
    let mut w: [u8; 8] = kani::any();
    w[1] = 2;
    unsafe {
        verif::NOTIFY_POLLS = 0;
        verif::NOTIFY_SCHEDULE = 0b10;
    }
    let sock = TwoPiece::<8> { input: w, pos: 0, cut: 3, stalled: false,
                               eof_reads: 0 };
    let mut conn = Conn::new(sock, ());
    let res = block_on(conn.recv(), 2);
    kani::cover!(matches!(res, Some(Ok(Some(VQuery::Notify)))));
    assert!(matches!(res, Some(Ok(Some(VQuery::Notify)))));
    assert!(conn.sock().pos == 0);
    std::mem::forget(res);
    std::mem::forget(conn);
}
