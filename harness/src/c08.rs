//! C08 — RTR server answers depend on the query bytes, not on how they
//! arrive.
//!
//! The private `Connection` is reached through the hook
//! `rpki::rtr::server::verif::Conn` (cfg rpki_verif).  The socket is an
//! in-memory duplex (`Sock`): its read half hands out an owned byte array in
//! solver-chosen fragments (one byte or all that fits, optionally `Pending`
//! in between, EOF at the end), its write half appends to a fixed array.
//! Update notifications: a connection made by the hook has no broadcast
//! channel (tokio's broadcast receiver cannot be compiled by Kani); instead
//! the k-th poll of `NotifyReceiver::recv` completes iff bit k of the
//! solver-chosen `NOTIFY_SCHEDULE` is set, so every interleaving of "notify
//! fires" with the arrival of query fragments is a solver variable.
//! The data source is a small array-backed `PayloadSource` with 0-2 IPv4
//! origins (fixed-layout PDUs only; see DESIGN §3 C07 for why the
//! variable-length PDUs are out of reach).
//! @jobs 8 @mem_gb 8 @quick_timeout 900 @thorough_timeout 3600
use crate::util::*;
use rpki::resources::addr::{MaxLenPrefix, Prefix};
use rpki::resources::asn::Asn;
use rpki::rtr::payload::{Action, PayloadRef, RouteOrigin, Timing};
use rpki::rtr::pdu;
use rpki::rtr::server::verif::{self, Conn, VQuery};
use rpki::rtr::server::{PayloadDiff, PayloadSet, PayloadSource, Socket};
use rpki::rtr::state::{Serial, State};
use std::io;
use std::net::Ipv4Addr;
use std::pin::Pin;
use std::task::{Context, Poll};
use tokio::io::{AsyncRead, AsyncWrite, ReadBuf};

//------------ in-memory duplex socket ---------------------------------------

pub struct Sock<const N: usize, const M: usize> {
    pub input: [u8; N],
    pub in_len: usize,
    pub pos: usize,
    pub fragment: bool,
    pub pending_left: u8,
    pub eof_reads: u32,
    pub out: [u8; M],
    pub out_len: usize,
}

impl<const N: usize, const M: usize> Sock<N, M> {
    pub fn new(input: [u8; N], in_len: usize, fragment: bool, pending: u8)
        -> Self {
        Sock { input, in_len, pos: 0, fragment, pending_left: pending,
               eof_reads: 0, out: [0u8; M], out_len: 0 }
    }
}

impl<const N: usize, const M: usize> AsyncRead for Sock<N, M> {
    fn poll_read(
        mut self: Pin<&mut Self>, _cx: &mut Context<'_>,
        buf: &mut ReadBuf<'_>,
    ) -> Poll<io::Result<()>> {
        if self.pending_left > 0 && kani::any() {
            self.pending_left -= 1;
            return Poll::Pending;
        }
        let left = self.in_len - self.pos;
        let room = buf.remaining();
        if left == 0 || room == 0 {
            if left == 0 && room > 0 {
                self.eof_reads += 1;
                if self.eof_reads > 3 {
                    panic!("reader spins on a closed stream");
                }
            }
            return Poll::Ready(Ok(()));
        }
        let max = if left < room { left } else { room };
        let n = if self.fragment && kani::any() { 1 } else { max };
        let pos = self.pos;
        buf.put_slice(&self.input[pos..pos + n]);
        self.pos += n;
        Poll::Ready(Ok(()))
    }
}

impl<const N: usize, const M: usize> AsyncWrite for Sock<N, M> {
    fn poll_write(
        mut self: Pin<&mut Self>, _cx: &mut Context<'_>, src: &[u8],
    ) -> Poll<io::Result<usize>> {
        let l = self.out_len;
        let n = src.len();
        assert!(l + n <= M, "harness sink too small");
        self.out[l..l + n].copy_from_slice(src);
        self.out_len = l + n;
        Poll::Ready(Ok(n))
    }
    fn poll_flush(self: Pin<&mut Self>, _cx: &mut Context<'_>)
        -> Poll<io::Result<()>> {
        Poll::Ready(Ok(()))
    }
    fn poll_shutdown(self: Pin<&mut Self>, _cx: &mut Context<'_>)
        -> Poll<io::Result<()>> {
        Poll::Ready(Ok(()))
    }
}

impl<const N: usize, const M: usize> Socket for Sock<N, M> {}

//------------ array-backed payload source -----------------------------------

#[derive(Clone, Copy)]
pub struct Src {
    pub ready: bool,
    pub state: State,
    pub has_diff: bool,
    pub n: usize,
    pub items: [RouteOrigin; 2],
    pub actions: [Action; 2],
    pub timing: Timing,
}

pub struct Iter {
    src: Src,
    next: usize,
}

impl PayloadSet for Iter {
    fn next(&mut self) -> Option<PayloadRef<'_>> {
        if self.next >= self.src.n {
            return None;
        }
        let i = self.next;
        self.next += 1;
        Some(PayloadRef::Origin(self.src.items[i]))
    }
}

impl PayloadDiff for Iter {
    fn next(&mut self) -> Option<(PayloadRef<'_>, Action)> {
        if self.next >= self.src.n {
            return None;
        }
        let i = self.next;
        self.next += 1;
        Some((PayloadRef::Origin(self.src.items[i]), self.src.actions[i]))
    }
}

impl PayloadSource for Src {
    type Set = Iter;
    type Diff = Iter;
    fn ready(&self) -> bool {
        self.ready
    }
    fn notify(&self) -> State {
        self.state
    }
    fn full(&self) -> (State, Iter) {
        (self.state, Iter { src: *self, next: 0 })
    }
    fn diff(&self, _state: State) -> Option<(State, Iter)> {
        if self.has_diff {
            Some((self.state, Iter { src: *self, next: 0 }))
        } else {
            None
        }
    }
    fn timing(&self) -> Timing {
        self.timing
    }
}

fn any_v4_origin() -> (RouteOrigin, u32, u8, u8, u32) {
    let len: u8 = kani::any();
    kani::assume(len <= 32);
    let a: u32 = kani::any();
    let lo = a & !host_mask_v4(len);
    let ml: u8 = kani::any();
    kani::assume(ml >= len && ml <= 32);
    let asn: u32 = kani::any();
    let p = Prefix::new_v4(Ipv4Addr::from(lo), len).unwrap();
    let o = RouteOrigin::new(MaxLenPrefix::new(p, Some(ml)).unwrap(),
                             Asn::from_u32(asn));
    (o, lo, len, ml, asn)
}

fn dummy_src() -> Src {
    let p = Prefix::new_v4(Ipv4Addr::from(0), 0).unwrap();
    let o = RouteOrigin::new(MaxLenPrefix::new(p, None).unwrap(),
                             Asn::from_u32(0));
    Src { ready: true, state: State::from_parts(0, Serial(0)),
          has_diff: false, n: 0, items: [o, o],
          actions: [Action::Announce, Action::Announce],
          timing: Timing { refresh: 1, retry: 2, expire: 3 } }
}

fn any_version_state() -> Option<u8> {
    if kani::any() { Some(kani::any()) } else { None }
}

/// Reference for `check_version`: `Err((answer version, code))` or the
/// version the connection is on afterwards.
fn ref_version(cur: Option<u8>, v: u8) -> Result<u8, (u8, u16)> {
    match cur {
        Some(c) if c != v => Err((c, 8)),
        Some(c) => Ok(c),
        None if v > 2 => Err((2, 4)),
        None => Ok(v),
    }
}

/// The Error PDU must answer with `version`, carry `code`, and encapsulate
/// exactly the 8 offending header bytes.
fn check_error_pdu(err: &pdu::Error, version: u8, code: u16, hdr: &[u8]) {
    let b: &[u8] = err.as_ref();
    assert!(b.len() >= 24);
    assert!(b[0] == version && b[1] == 10 && be16(b, 2) == code);
    assert!(be32(b, 4) as usize == b.len());
    assert!(be32(b, 8) == 8);
    assert!(be32(b, 12) == be32(hdr, 0) && be32(b, 16) == be32(hdr, 4));
    assert!(be32(b, 20) as usize == b.len() - 24);
}

//------------ recv: classification of one query ------------------------------

fn recv_body(pdu_type: Option<u8>) { recv_body_x(pdu_type, true, 2, 16) }

fn recv_body_x(pdu_type: Option<u8>, fragment: bool, max_pending: u8,
               polls: usize) {
    let mut w: [u8; 12] = kani::any();
    if let Some(t) = pdu_type {
        w[1] = t;
    } else {
        kani::assume(w[1] != 1 && w[1] != 2 && w[1] != 10);
    }
    let cur = any_version_state();
    let pending: u8 = kani::any();
    kani::assume(pending <= max_pending);
    let sock = Sock::<12, 1>::new(w, 12, fragment, pending);
    let mut conn = Conn::new(sock, dummy_src());
    conn.set_version(cur);
    let res = block_on(conn.recv(), polls);
    let res = match res { Some(r) => r, None => panic!("recv stalls") };
    let used = conn.sock().pos;
    let vres = ref_version(cur, w[0]);
    let len = be32(&w, 4);
    kani::cover!(cur.is_none() && w[0] == 2 && len == 12);
    kani::cover!(cur == Some(1) && w[0] == 0);
    kani::cover!(cur.is_none() && w[0] == 3);
    kani::cover!(len == 8);
    match vres {
        Err((av, code)) => {
            assert!(used == 8);
            assert!(conn.version() == cur);
            match res {
                Ok(Some(VQuery::Error(ref e))) =>
                    check_error_pdu(e, av, code, &w[..8]),
                _ => panic!("version violation must be answered by an \
                             Error PDU"),
            }
        }
        Ok(v) => {
            assert!(conn.version() == Some(v));
            match w[1] {
                1 => {
                    if len == 12 {
                        assert!(used == 12);
                        match res {
                            Ok(Some(VQuery::Serial(st))) => {
                                assert!(st.session() == be16(&w, 2));
                                assert!(st.serial().0 == be32(&w, 8));
                            }
                            _ => panic!("serial query not recognised"),
                        }
                    } else {
                        assert!(used == 8);
                        match res {
                            Ok(Some(VQuery::Error(ref e))) =>
                                check_error_pdu(e, w[0], 3, &w[..8]),
                            _ => panic!("bad length must be answered by \
                                         an Error PDU"),
                        }
                    }
                }
                2 => {
                    assert!(used == 8);
                    if len == 8 {
                        assert!(matches!(res, Ok(Some(VQuery::Reset))));
                    } else {
                        match res {
                            Ok(Some(VQuery::Error(ref e))) =>
                                check_error_pdu(e, w[0], 3, &w[..8]),
                            _ => panic!("bad length must be answered by \
                                         an Error PDU"),
                        }
                    }
                }
                10 => {
                    assert!(used == 8);
                    assert!(res.is_err());
                }
                _ => {
                    assert!(used == 8);
                    match res {
                        Ok(Some(VQuery::Error(ref e))) =>
                            check_error_pdu(e, w[0], 3, &w[..8]),
                        _ => panic!("unsupported PDU must be answered by \
                                     an Error PDU"),
                    }
                }
            }
        }
    }
    std::mem::forget(res);
    std::mem::forget(conn);
}

/// @tier exp2
/// @fn rpki::rtr::server::Connection::recv rpki::rtr::server::Connection::check_version
///   rpki::rtr::server::Connection::check_length rpki::rtr::pdu::Header::read
///   rpki::rtr::pdu::SerialQueryPayload::read rpki::rtr::pdu::Error::new
/// @bounds one 12-byte client stream whose PDU type is Serial Query, every
///   other byte arbitrary (version, session, length field, serial); arbitrary
///   connection version state (not negotiated / any u8); every fragmentation
///   whose pieces are one byte or run to the reader's request, with up to 2
///   Pending results in between; notify never fires; unwind 14
/// @says the query the server acts on is a function of the bytes only: a
///   Serial Query with length 12 yields (session, serial) from the bytes and
///   consumes 12 bytes; any other length, a version other than the negotiated
///   one, or a first version above 2 yields an Error PDU (code 3 / 8 / 4,
///   answering version, the 8 header bytes encapsulated) after exactly 8
///   bytes; the negotiated version is set by the first acceptable header
///   and never changed afterwards
/// @out more than one query per harness; streams longer than 12 bytes
#[kani::proof]
#[kani::unwind(14)]
fn recv_serial_query_any_fragmentation() { recv_body(Some(1)); }

/// @tier exp2
/// @fn rpki::rtr::server::Connection::recv rpki::rtr::server::Connection::check_version
///   rpki::rtr::server::Connection::check_length
/// @bounds as recv_serial_query_any_fragmentation with PDU type Reset Query
/// @says a Reset Query with length 8 is recognised after exactly 8 bytes,
///   any other length / version violation is answered by the Error PDU
#[kani::proof]
#[kani::unwind(14)]
fn recv_reset_query_any_fragmentation() { recv_body(Some(2)); }

/// @tier exp2
/// @fn rpki::rtr::server::Connection::recv rpki::rtr::server::Connection::check_version
/// @bounds as recv_serial_query_any_fragmentation with every PDU type other
///   than 1 and 2 (type 10 in its own case)
/// @says any PDU type that is not a query is answered by an Error PDU with
///   code 3 encapsulating the header (after the version check), an Error
///   PDU from the client ends the connection with an error; exactly 8 bytes
///   are consumed
#[kani::proof]
#[kani::unwind(14)]
fn recv_other_pdu_any_fragmentation() {
    if kani::any() { recv_body(Some(10)) } else { recv_body(None) }
}

/// @tier long
/// @says probe
#[kani::proof]
#[kani::unwind(3)]
fn x_recv_serial_plain() { recv_body_x(Some(1), false, 0, 1); }

/// @tier long
/// @says probe
#[kani::proof]
#[kani::unwind(3)]
fn x_recv_reset_plain() { recv_body_x(Some(2), false, 0, 1); }

/// @tier exp
/// @says probe
#[kani::proof]
#[kani::unwind(4)]
fn x_recv_reset_pending1() { recv_body_x(Some(2), false, 1, 2); }

/// @tier exp
/// @says probe
#[kani::proof]
#[kani::unwind(3)]
fn x_check_version() {
    let w: [u8; 8] = kani::any();
    let cur = any_version_state();
    let sock = Sock::<12, 1>::new([0; 12], 12, false, 0);
    let mut conn = Conn::new(sock, dummy_src());
    conn.set_version(cur);
    let mut rd = &w[..];
    let h = block_on(pdu::Header::read(&mut rd), 1).unwrap().unwrap();
    let r = conn.check_version(h);
    match ref_version(cur, w[0]) {
        Err((av, code)) => {
            match r { Err(ref e) => check_error_pdu(e, av, code, &w[..8]), _ => panic!() }
        }
        Ok(v) => { assert!(r.is_ok() && conn.version() == Some(v)); }
    }
    std::mem::forget(r);
    std::mem::forget(conn);
}

/// @tier exp
/// @says probe
#[kani::proof]
#[kani::unwind(3)]
fn x_recv_min() {
    let mut w: [u8; 12] = kani::any();
    w[1] = 2;
    let sock = Sock::<12, 1>::new(w, 12, false, 0);
    let mut conn = Conn::new(sock, dummy_src());
    let res = block_on(conn.recv(), 1);
    let used = conn.sock().pos;
    assert!(used == 8);
    std::mem::forget(res);
    std::mem::forget(conn);
}

/// @tier long
/// @says probe
#[kani::proof]
#[kani::unwind(3)]
fn x_recv_min_concrete() {
    let mut w: [u8; 12] = kani::any();
    w[0] = 1;
    w[1] = 2;
    w[4] = 0; w[5] = 0; w[6] = 0; w[7] = 8;
    let sock = Sock::<12, 1>::new(w, 12, false, 0);
    let mut conn = Conn::new(sock, dummy_src());
    let res = block_on(conn.recv(), 1);
    let used = conn.sock().pos;
    assert!(used == 8);
    assert!(matches!(res, Some(Ok(Some(VQuery::Reset)))));
    std::mem::forget(res);
    std::mem::forget(conn);
}

async fn my_recv<S: AsyncRead + Unpin>(sock: &mut S) -> Result<Option<VQuery>, io::Error> {
    let header = pdu::Header::read(sock).await?;
    match header.pdu() {
        2 => {
            if header.length() == 8 { Ok(Some(VQuery::Reset)) }
            else { Ok(Some(VQuery::Error(pdu::Error::new(header.version(), 3, header, "invalid length")))) }
        }
        1 => {
            if header.length() == 12 {
                let payload = pdu::SerialQueryPayload::read(sock).await?;
                Ok(Some(VQuery::Serial(State::from_parts(header.session(), payload.serial()))))
            }
            else { Ok(Some(VQuery::Error(pdu::Error::new(header.version(), 3, header, "invalid length")))) }
        }
        _ => Ok(Some(VQuery::Error(pdu::Error::new(header.version(), 3, header, "expected")))),
    }
}

async fn my_recv_sel<S: AsyncRead + Unpin>(sock: &mut S) -> Result<Option<VQuery>, io::Error> {
    use futures_util::future::{self, Either};
    use futures_util::pin_mut;
    let header = {
        let notify = std::future::pending::<()>();
        let header = pdu::Header::read(sock);
        pin_mut!(notify);
        pin_mut!(header);
        match future::select(notify, header).await {
            Either::Left(_) => return Ok(Some(VQuery::Notify)),
            Either::Right((Ok(header), _)) => header,
            Either::Right((Err(err), _)) => return Err(err),
        }
    };
    match header.pdu() {
        2 => {
            if header.length() == 8 { Ok(Some(VQuery::Reset)) }
            else { Ok(Some(VQuery::Error(pdu::Error::new(header.version(), 3, header, "invalid length")))) }
        }
        _ => Ok(Some(VQuery::Error(pdu::Error::new(header.version(), 3, header, "expected")))),
    }
}

/// @tier exp
/// @says probe
#[kani::proof]
#[kani::unwind(3)]
fn x_myrecv() {
    let mut w: [u8; 12] = kani::any();
    w[1] = 2;
    let mut sock = Sock::<12, 1>::new(w, 12, false, 0);
    let res = block_on(my_recv(&mut sock), 1);
    assert!(sock.pos == 8);
    std::mem::forget(res);
}

/// @tier exp
/// @says probe
#[kani::proof]
#[kani::unwind(3)]
fn x_myrecv_sel() {
    let mut w: [u8; 12] = kani::any();
    w[1] = 2;
    let mut sock = Sock::<12, 1>::new(w, 12, false, 0);
    let res = block_on(my_recv_sel(&mut sock), 1);
    assert!(sock.pos == 8);
    std::mem::forget(res);
}

/// Model of `pdu::Error::new` used as a stub in the connection harnesses:
/// the same octets (RFC 8210 section 5.10 layout: header with the error code
/// in the session field, length of the encapsulated PDU, the PDU, length of
/// the text, the text), built with one allocation and plain copies.  That
/// the real `Error::new` produces exactly this layout is decided by C07
/// (`error_pdu_layout`).
pub fn error_new_model<P: AsRef<[u8]>, T: AsRef<[u8]>>(
    version: u8, error_code: u16, pdu: P, text: T,
) -> pdu::Error {
    let p = pdu.as_ref();
    let t = text.as_ref();
    let size = 16 + p.len() + t.len();
    let mut v = vec![0u8; size];
    v[0] = version;
    v[1] = 10;
    v[2] = (error_code >> 8) as u8;
    v[3] = error_code as u8;
    v[4..8].copy_from_slice(&(size as u32).to_be_bytes());
    v[8..12].copy_from_slice(&(p.len() as u32).to_be_bytes());
    v[12..12 + p.len()].copy_from_slice(p);
    v[12 + p.len()..16 + p.len()]
        .copy_from_slice(&(t.len() as u32).to_be_bytes());
    v[16 + p.len()..].copy_from_slice(t);
    pdu::Error::verif_from_octets(v)
}

/// @tier exp
/// @says probe
#[kani::proof]
#[kani::unwind(3)]
#[kani::stub(rpki::rtr::pdu::Error::new, error_new_model)]
fn x_recv_min_stub() {
    let mut w: [u8; 12] = kani::any();
    w[1] = 2;
    let sock = Sock::<12, 1>::new(w, 12, false, 0);
    let mut conn = Conn::new(sock, dummy_src());
    let res = block_on(conn.recv(), 1);
    let used = conn.sock().pos;
    assert!(used == 8);
    std::mem::forget(res);
    std::mem::forget(conn);
}

/// @tier exp
/// @says probe
#[kani::proof]
#[kani::unwind(3)]
fn x_recv_min_nosrc() {
    let mut w: [u8; 12] = kani::any();
    w[1] = 2;
    let sock = Sock::<12, 1>::new(w, 12, false, 0);
    let mut conn = Conn::new(sock, ());
    let res = block_on(conn.recv(), 1);
    let used = conn.sock().pos;
    assert!(used == 8);
    std::mem::forget(res);
    std::mem::forget(conn);
}

/// @tier exp
/// @says probe
#[kani::proof]
#[kani::unwind(3)]
fn x_recv_min_slice() {
    let mut w: [u8; 12] = kani::any();
    w[1] = 2;
    let w: &'static [u8] = Vec::leak(w.to_vec());
    let mut conn = Conn::new(w, ());
    let res = block_on(conn.recv(), 1);
    assert!(conn.sock().len() == 4);
    std::mem::forget(res);
    std::mem::forget(conn);
}
