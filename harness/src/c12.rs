//! C12 — URIs: parsed form is faithful, equality/hash agree, path algebra is
//! consistent.
//!
//! Three groups of obligations (lengths are always concrete, bytes symbolic):
//!  (P) the parsers on "scheme + N arbitrary bytes" against an independent
//!      grammar, including the cached component offsets (hook accessor);
//!  (L) the laws of ==, hash, relative_to, is_parent_of, parent on arbitrary
//!      *valid* URIs: the value is assembled through the hook constructor
//!      from an arbitrary byte string that the reference grammar accepts,
//!      with the offsets the grammar gives -- one step from an arbitrary
//!      valid state; (P) shows the parser produces exactly such states;
//!  (J) join on concrete bases of every shape (path-less, directory, file)
//!      with arbitrary arguments (BytesMut with symbolic sizes is out of
//!      reach, concrete bases are not).
//! @jobs 8 @mem_gb 7 @quick_timeout 700 @thorough_timeout 5400 @thorough_jobs 4 @thorough_mem_gb 14
use crate::util::*;
use rpki::uri::{Https, Rsync};

//------------ reference model ---------------------------------------------------

fn permitted(ch: u8) -> bool {
    ch == b'!' || (ch >= b'$' && ch <= b';') || ch == b'='
        || (ch >= b'A' && ch <= b'Z') || ch == b'_'
        || (ch >= b'a' && ch <= b'z') || ch == b'~'
}

/// RFC-style grammar of the part after "rsync://", written independently:
/// authority "/" module "/" path, authority and module non-empty, no empty
/// segment except a final one, no "." or ".." segment, permitted characters
/// only.  Returns (authority length, module length).
fn ref_rsync_tail(t: &[u8]) -> Option<(usize, usize)> {
    let n = t.len();
    let mut seg_start = 0usize;
    let mut nseg = 0usize;
    let mut auth = 0usize;
    let mut module = 0usize;
    let mut i = 0usize;
    while i <= n {
        if i == n || t[i] == b'/' {
            let len = i - seg_start;
            let last = i == n;
            if len == 0 && !last {
                return None; // empty segment that is not the last one
            }
            if len == 1 && t[seg_start] == b'.' {
                return None;
            }
            if len == 2 && t[seg_start] == b'.' && t[seg_start + 1] == b'.' {
                return None;
            }
            if nseg == 0 { auth = len; }
            if nseg == 1 { module = len; }
            nseg += 1;
            seg_start = i + 1;
        } else if !permitted(t[i]) {
            return None;
        }
        i += 1;
    }
    // at least "a/m/" : three segments (the third possibly empty)
    if nseg < 3 || auth == 0 || module == 0 {
        return None;
    }
    Some((auth, module))
}

fn rsync_uri<const N: usize, const M: usize>(tail: &[u8; N]) -> [u8; M] {
    let mut buf = [0u8; M];
    buf[..8].copy_from_slice(b"rsync://");
    buf[8..].copy_from_slice(tail);
    buf
}

/// As `rsync_uri`, with the five scheme letters in upper case where the
/// corresponding bit of `mask` is set (the scheme is case-insensitive).
fn rsync_uri_case<const N: usize, const M: usize>(tail: &[u8; N], mask: u8)
    -> [u8; M] {
    let mut buf = rsync_uri::<N, M>(tail);
    if mask & 1 != 0 { buf[0] = b'R'; }
    if mask & 2 != 0 { buf[1] = b'S'; }
    if mask & 4 != 0 { buf[2] = b'Y'; }
    if mask & 8 != 0 { buf[3] = b'N'; }
    if mask & 16 != 0 { buf[4] = b'C'; }
    buf
}

//------------ (P) parsing ----------------------------------------------------------

fn rsync_parse_body<const N: usize, const M: usize>() {
    let tail: [u8; N] = kani::any();
    let buf: [u8; M] = rsync_uri::<N, M>(&tail);
    let res = Rsync::from_slice(&buf);
    let want = ref_rsync_tail(&tail);
    kani::cover!(res.is_ok());
    kani::cover!(res.is_err() && want.is_none());
    assert_eq!(res.is_ok(), want.is_some());
    if let Ok(u) = &res {
        let (a, m) = want.unwrap();
        assert!(u.verif_parts() == (9 + a, 9 + a + m + 1));
        let s = u.as_slice();
        assert!(s.len() == M);
        let k: usize = kani::any();
        kani::assume(k < M);
        assert!(s[k] == buf[k]);
    }
    std::mem::forget(res);
}

/// @tier thorough
/// @fn rpki::uri::Rsync::from_slice rpki::uri::Rsync::from_bytes rpki::uri::Rsync::check_path
///   rpki::uri::check_uri_ascii rpki::uri::is_u8_uri_ascii rpki::uri::starts_with_ignore_case
///   rpki::uri::Rsync::as_slice
/// @bounds length-indexed family, member for "rsync://" + exactly 4
///   arbitrary bytes (all 2^32 tails); unwind 14
/// @says a byte string is accepted as rsync URI exactly when the part after
///   the scheme matches the grammar authority/module/path with permitted
///   characters only, non-empty authority and module, no empty segment
///   except a trailing one and no dot segments; an accepted URI keeps its
///   bytes unchanged and caches the offsets of module and path the grammar
///   gives
/// @out tails longer than 5 bytes for the fully symbolic parser harness
#[kani::proof]
#[kani::unwind(14)]
fn rsync_parse_len4_t() { rsync_parse_body::<4, 12>(); }

/// @tier thorough
/// @fn rpki::uri::Rsync::from_slice rpki::uri::Rsync::from_bytes rpki::uri::Rsync::check_path
/// @bounds length-indexed family, member for "rsync://" + exactly 5 bytes
/// @says see rsync_parse_len4_t
#[kani::proof]
#[kani::unwind(15)]
fn rsync_parse_len5_t() { rsync_parse_body::<5, 13>(); }

/// @tier quick thorough
/// @fn rpki::uri::Rsync::from_slice rpki::uri::starts_with_ignore_case
/// @bounds arbitrary 8 bytes in the scheme position followed by the fixed
///   tail "h/m/"; unwind 14
/// @says the scheme is accepted exactly when it equals "rsync://" compared
///   case-insensitively (and consists of permitted characters)
#[kani::proof]
#[kani::unwind(14)]
fn rsync_scheme_case_insensitive() {
    let sch: [u8; 8] = kani::any();
    let mut buf = [0u8; 12];
    buf[..8].copy_from_slice(&sch);
    buf[8..].copy_from_slice(b"h/m/");
    let res = Rsync::from_slice(&buf);
    let want = b"rsync://";
    let mut ok = true;
    let mut i = 0;
    while i < 8 {
        if sch[i].to_ascii_lowercase() != want[i] { ok = false; }
        i += 1;
    }
    kani::cover!(res.is_ok() && sch[0] == b'R' && sch[4] == b'c');
    kani::cover!(res.is_err());
    assert_eq!(res.is_ok(), ok);
    if let Ok(u) = &res {
        assert!(u.verif_parts() == (10, 12));
    }
    std::mem::forget(res);
}

/// @tier quick thorough
/// @fn rpki::uri::Rsync::from_slice rpki::uri::Rsync::check_path
/// @bounds the concrete shapes h/m/ + P with P = two arbitrary bytes
///   (a file name, "x/", "..", "./", "//" ...); unwind 16
/// @says with a fixed one-letter authority and module, the path part is
///   accepted exactly when it has permitted characters only, no dot segment
///   and no empty segment except a trailing one; offsets are (10, 12)
#[kani::proof]
#[kani::unwind(16)]
fn rsync_parse_fixed_module_path2() {
    let p: [u8; 2] = kani::any();
    let mut buf = [0u8; 14];
    buf[..12].copy_from_slice(b"rsync://h/m/");
    buf[12] = p[0];
    buf[13] = p[1];
    let res = Rsync::from_slice(&buf);
    let ok = permitted(p[0]) && permitted(p[1]) && p[0] != b'/'
        && !(p[0] == b'.' && (p[1] == b'.' || p[1] == b'/'));
    kani::cover!(res.is_ok() && p[1] == b'/');
    kani::cover!(res.is_err() && p[0] == b'.' && p[1] == b'.');
    kani::cover!(res.is_err() && p[0] == b'/');
    assert_eq!(res.is_ok(), ok);
    assert_eq!(ref_rsync_tail(&[b'h', b'/', b'm', b'/', p[0], p[1]]).is_some(),
               ok);
    if let Ok(u) = &res {
        assert!(u.verif_parts() == (10, 12));
    }
    std::mem::forget(res);
}

fn alpha(c: u8) -> bool {
    (c >= b'a' && c <= b'z') || (c >= b'A' && c <= b'Z')
}

/// @tier thorough
/// @fn rpki::uri::Rsync::authority rpki::uri::Rsync::module_name rpki::uri::Rsync::path
///   rpki::uri::Rsync::module rpki::uri::Rsync::path_is_dir rpki::uri::Rsync::canonical_authority
/// @bounds URIs of the shape rsync://A/M/P with A, M, P one arbitrary letter
///   each (fixed slash positions); unwind 15
/// @says scheme, authority, module and path accessors recompose to the text
///   of an accepted URI
#[kani::proof]
#[kani::unwind(15)]
fn rsync_accessors_recompose_t() {
    let (a, m, p): (u8, u8, u8) = kani::any();
    kani::assume(alpha(a) && alpha(m) && alpha(p));
    let mut buf = [0u8; 13];
    buf[..8].copy_from_slice(b"rsync://");
    buf[8] = a; buf[9] = b'/'; buf[10] = m; buf[11] = b'/'; buf[12] = p;
    let u = Rsync::from_slice(&buf).unwrap();
    kani::cover!(a == b'X');
    assert!(u.authority().as_bytes() == [a]);
    assert!(u.module_name().as_bytes() == [m]);
    assert!(u.path().as_bytes() == [p]);
    assert!(u.path_bytes() == [p]);
    assert!(u.module().len() == 12);
    assert!(u.as_str().len() == 13);
    assert!(!u.path_is_dir());
    assert!(u.canonical_authority().as_bytes() == [a.to_ascii_lowercase()]);
    std::mem::forget(u);
}

fn https_uri<const N: usize, const M: usize>(tail: &[u8; N]) -> [u8; M] {
    let mut buf = [0u8; M];
    buf[..8].copy_from_slice(b"https://");
    buf[8..].copy_from_slice(tail);
    buf
}

/// Reference: offset of the first '/' at or after index 8, or the length.
fn ref_path_idx(s: &[u8]) -> usize {
    let mut i = 8;
    while i < s.len() {
        if s[i] == b'/' { return i; }
        i += 1;
    }
    s.len()
}

fn https_parse_body<const N: usize, const M: usize>() {
    let tail: [u8; N] = kani::any();
    let buf: [u8; M] = https_uri::<N, M>(&tail);
    let res = Https::from_slice(&buf);
    let mut ok = true;
    let mut i = 0;
    while i < N {
        if !permitted(tail[i]) { ok = false; }
        i += 1;
    }
    kani::cover!(res.is_ok() && tail[1] == b'/');
    kani::cover!(res.is_err());
    assert_eq!(res.is_ok(), ok);
    if let Ok(u) = &res {
        let pi = ref_path_idx(&buf);
        assert!(u.verif_parts() == pi);
        assert!(u.as_slice().len() == M);
        assert!(u.authority().len() == pi - 8);
        assert!(u.path().len() == M - pi);
        assert!(u.path_is_dir() == (pi == M || buf[M - 1] == b'/'));
        let k: usize = kani::any();
        kani::assume(k < M);
        assert!(u.as_slice()[k] == buf[k]);
    }
    std::mem::forget(res);
}

/// @tier quick thorough
/// @fn rpki::uri::Https::from_slice rpki::uri::Https::from_bytes rpki::uri::Https::authority
///   rpki::uri::Https::path rpki::uri::Https::path_is_dir rpki::uri::Scheme::from_prefix
/// @bounds length-indexed family, member for "https://" + exactly 3
///   arbitrary bytes; unwind 14
/// @says an HTTPS URI is accepted exactly when all bytes are permitted
///   characters; text unchanged; the authority runs up to the first slash
///   after the scheme (or the end) and the path is the rest
#[kani::proof]
#[kani::unwind(14)]
fn https_parse_len3() { https_parse_body::<3, 11>(); }

/// @tier quick thorough
/// @fn rpki::uri::Https::from_slice rpki::uri::Https::from_bytes rpki::uri::Https::authority
/// @bounds length-indexed family, member for "https://" + exactly 5 bytes
/// @says see https_parse_len3
#[kani::proof]
#[kani::unwind(16)]
fn https_parse_len5() { https_parse_body::<5, 13>(); }

/// @tier quick thorough
/// @fn rpki::uri::Https::from_slice rpki::uri::Scheme::from_prefix
/// @bounds arbitrary 8 bytes in the scheme position followed by "h/p"
/// @says the HTTPS parser accepts exactly the scheme "https://" compared
///   case-insensitively (in particular it refuses rsync URIs)
#[kani::proof]
#[kani::unwind(14)]
fn https_scheme_case_insensitive() {
    let sch: [u8; 8] = kani::any();
    let mut buf = [0u8; 11];
    buf[..8].copy_from_slice(&sch);
    buf[8..].copy_from_slice(b"h/p");
    let res = Https::from_slice(&buf);
    let want = b"https://";
    let mut ok = true;
    let mut i = 0;
    while i < 8 {
        if sch[i].to_ascii_lowercase() != want[i] { ok = false; }
        i += 1;
    }
    kani::cover!(res.is_ok() && sch[0] == b'H');
    kani::cover!(res.is_err() && sch[0] == b'r');
    assert_eq!(res.is_ok(), ok);
    std::mem::forget(res);
}

//------------ (L) laws on arbitrary valid URIs --------------------------------------

/// An arbitrary valid rsync URI with a tail of exactly N bytes, assembled
/// through the hook constructor with the offsets the reference grammar gives.
fn any_valid_rsync<const N: usize, const M: usize>()
    -> (Rsync, &'static [u8; M], usize, usize) {
    let tail: [u8; N] = kani::any();
    let want = ref_rsync_tail(&tail);
    kani::assume(want.is_some());
    let (a, m) = want.unwrap();
    let mask: u8 = kani::any();
    let buf: &'static [u8; M] =
        Box::leak(Box::new(rsync_uri_case::<N, M>(&tail, mask)));
    let u = Rsync::verif_from_parts(
        bytes::Bytes::from_static(buf), 9 + a, 9 + a + m + 1);
    (u, buf, a, m)
}

fn lower(c: u8) -> u8 { c.to_ascii_lowercase() }

/// Reference equality: same length; scheme and authority equal ignoring
/// case; everything after the authority exactly equal.
fn ref_rsync_eq(x: &[u8], xa: usize, y: &[u8], ya: usize) -> bool {
    if x.len() != y.len() || xa != ya {
        return false;
    }
    let mut i = 0;
    while i < x.len() {
        if i < 8 + xa {
            if lower(x[i]) != lower(y[i]) { return false; }
        } else if x[i] != y[i] {
            return false;
        }
        i += 1;
    }
    true
}

fn rsync_eq_body<const N: usize, const M: usize>() {
    let (x, xb, xa, _) = any_valid_rsync::<N, M>();
    let (y, yb, ya, _) = any_valid_rsync::<N, M>();
    let want = ref_rsync_eq(xb, xa, yb, ya);
    kani::cover!(want && xb[8] != yb[8]);
    kani::cover!(!want && xa == ya);
    assert_eq!(x == y, want);
    assert_eq!(y == x, want);
    assert!(x == x);
    if want {
        assert_eq!(hash_of(&x), hash_of(&y));
    }
    std::mem::forget((x, y));
}

/// @tier quick thorough
/// @fn rpki::uri::Rsync::eq rpki::uri::Rsync::hash
/// @bounds all pairs of valid rsync URIs with a 6-byte tail (authority,
///   module, path of any split: e.g. "ab/c/d", "a/b/c/", "a/bcd/"), every
///   byte of the permitted alphabet; values assembled from the reference
///   grammar's offsets; unwind 16
/// @says two URIs are equal exactly when scheme and authority are equal
///   ignoring case and the rest is equal exactly; equality is reflexive and
///   symmetric; equal URIs hash equally
/// @out tails of other lengths than 5 and 6; pairs of different lengths
///   (trivially unequal)
#[kani::proof]
#[kani::unwind(16)]
fn rsync_eq_hash_len6() { rsync_eq_body::<6, 14>(); }

/// @tier quick thorough
/// @fn rpki::uri::Rsync::eq rpki::uri::Rsync::hash
/// @bounds all triples of valid rsync URIs with a 5-byte tail; unwind 15
/// @says equality is transitive
#[kani::proof]
#[kani::unwind(15)]
fn rsync_eq_transitive_len5() {
    let (x, _, _, _) = any_valid_rsync::<5, 13>();
    let (y, _, _, _) = any_valid_rsync::<5, 13>();
    let (z, _, _, _) = any_valid_rsync::<5, 13>();
    kani::cover!(x == y && y == z);
    if x == y && y == z {
        assert!(x == z);
    }
    std::mem::forget((x, y, z));
}

/// Reference for relative_to(self = x, other = y): Some(k) = the relative
/// path starts at index k of x; None otherwise.  x is below-or-equal y when
/// the module parts agree (authority ignoring case, module exactly) and x's
/// path starts with y's path (minus one trailing slash) at a segment
/// boundary.
fn ref_relative<const M1: usize, const M2: usize>(
    x: &[u8; M1], xa: usize, xm: usize, y: &[u8; M2], ya: usize, ym: usize,
) -> Option<usize> {
    if xa != ya || xm != ym {
        return None;
    }
    let ps = 8 + xa + 1 + xm + 1; // path start of both
    let mut i = 0;
    while i < ps {
        if i < 8 + xa {
            if lower(x[i]) != lower(y[i]) { return None; }
        } else if x[i] != y[i] {
            return None;
        }
        i += 1;
    }
    // y's path without one trailing slash
    let mut yl = M2;
    if yl > ps && y[yl - 1] == b'/' {
        yl -= 1;
    }
    if yl == ps {
        return Some(ps); // y is the module root: whole path of x
    }
    if M1 < yl {
        return None;
    }
    let mut i = ps;
    while i < yl {
        if x[i] != y[i] { return None; }
        i += 1;
    }
    if M1 == yl {
        return Some(M1); // equal: empty relative path
    }
    if x[yl] != b'/' {
        return None;
    }
    Some(yl + 1)
}

/// An arbitrary valid rsync URI `rsync://h/m/` + exactly P path bytes
/// (authority and module fixed, so that only the path algebra is symbolic).
fn any_rsync_fixed_module<const N: usize, const M: usize>()
    -> (Rsync, &'static [u8; M], usize, usize) {
    let mut tail: [u8; N] = kani::any();
    tail[0] = b'h'; tail[1] = b'/'; tail[2] = b'm'; tail[3] = b'/';
    let want = ref_rsync_tail(&tail);
    kani::assume(want.is_some());
    let (a, m) = want.unwrap();
    assert!(a == 1 && m == 1);
    let mask: u8 = kani::any();
    let buf: &'static [u8; M] =
        Box::leak(Box::new(rsync_uri_case::<N, M>(&tail, mask)));
    let u = Rsync::verif_from_parts(bytes::Bytes::from_static(buf), 10, 12);
    (u, buf, 1, 1)
}

fn rsync_relative_body<const N1: usize, const M1: usize,
                       const N2: usize, const M2: usize>() -> bool {
    let (below, same) = rsync_relative_check::<M1, M2>(
        any_valid_rsync::<N1, M1>(), any_valid_rsync::<N2, M2>());
    kani::cover!(same);
    below
}

fn rsync_relative_check<const M1: usize, const M2: usize>(
    xs: (Rsync, &'static [u8; M1], usize, usize),
    ys: (Rsync, &'static [u8; M2], usize, usize),
) -> (bool, bool) {
    let (x, xb, xa, xm) = xs;
    let (y, yb, ya, ym) = ys;
    let want = ref_relative(xb, xa, xm, yb, ya, ym);
    let got = x.relative_to(&y);
    kani::cover!(want.is_none() && xa == ya && xm == ym);
    match (got, want) {
        (None, None) => {}
        (Some(r), Some(k)) => {
            assert!(r.len() == M1 - k);
            if !r.is_empty() {
                // the suffix of self starting at k (an empty result may be
                // a literal "")
                assert!(r.as_ptr() == unsafe { xb.as_ptr().add(k) });
            }
        }
        _ => panic!("relative_to disagrees with the reference"),
    }
    // parent-of is "relative path exists and is non-empty"
    assert_eq!(y.is_parent_of(&x), matches!(want, Some(k) if k < M1));
    std::mem::forget((x, y));
    (matches!(want, Some(k) if k < M1), matches!(want, Some(k) if k == M1))
}

/// @tier quick thorough
/// @fn rpki::uri::Rsync::relative_to rpki::uri::Rsync::is_parent_of rpki::uri::Rsync::eq_module
/// @bounds self = any valid URI with a 6-byte tail, other = any valid URI
///   with a 5-byte tail (all splits into authority/module/path); unwind 16
/// @says relative_to yields a path exactly when both URIs have the same
///   authority (ignoring case) and exactly the same module name and self's
///   path continues other's path at a segment boundary; the result is the
///   remaining suffix of self (so that other joined with it gives back
///   self), empty exactly when the two are equal up to one trailing slash;
///   is_parent_of holds exactly when that suffix is non-empty
#[kani::proof]
#[kani::unwind(16)]
fn rsync_relative_to_len6_len5() {
    let below = rsync_relative_body::<6, 14, 5, 13>();
    kani::cover!(below);
}

/// @tier quick thorough
/// @fn rpki::uri::Rsync::relative_to rpki::uri::Rsync::is_parent_of rpki::uri::Rsync::eq_module
/// @bounds self and other = any valid URIs with 5-byte tails; unwind 15
/// @says see rsync_relative_to_len6_len5 (equal-length case: module names of
///   different case, trailing slash against a one-letter last segment)
#[kani::proof]
#[kani::unwind(15)]
fn rsync_relative_to_len5_len5() {
    let below = rsync_relative_body::<5, 13, 5, 13>();
    assert!(!below); // equal lengths: never strictly below
}

/// @tier quick thorough
/// @fn rpki::uri::Rsync::relative_to rpki::uri::Rsync::is_parent_of
/// @bounds self = rsync://h/m/ + 2 path bytes, other = rsync://h/m/ + 1 path
///   byte (every permitted byte, e.g. "aa" against "a", "a/" against "a");
///   unwind 16
/// @says see rsync_relative_to_len6_len5; this cheap member has a path that
///   repeats the other's path ("aa" is not below "a")
#[kani::proof]
#[kani::unwind(16)]
fn rsync_relative_to_paths_2_1() {
    let (_, same) = rsync_relative_check::<14, 13>(
        any_rsync_fixed_module::<6, 14>(), any_rsync_fixed_module::<5, 13>());
    kani::cover!(same);
}

/// @tier quick thorough
/// @fn rpki::uri::Rsync::relative_to rpki::uri::Rsync::is_parent_of
/// @bounds self = rsync://h/m/ + 4 path bytes, other = rsync://h/m/ + 1 path
///   byte ("aa/b" against "a", "a/bc" against "a"); unwind 18
/// @says see rsync_relative_to_len6_len5
#[kani::proof]
#[kani::unwind(18)]
fn rsync_relative_to_paths_4_1() {
    let (below, _) = rsync_relative_check::<16, 13>(
        any_rsync_fixed_module::<8, 16>(), any_rsync_fixed_module::<5, 13>());
    kani::cover!(below);
}

/// The concrete URI rsync://h/m/a (as if parsed).
fn rsync_h_m_a() -> (Rsync, &'static [u8; 13], usize, usize) {
    let buf: &'static [u8; 13] = b"rsync://h/m/a";
    (Rsync::verif_from_parts(bytes::Bytes::from_static(buf), 10, 12),
     buf, 1, 1)
}

/// @tier quick thorough
/// @fn rpki::uri::Rsync::relative_to rpki::uri::Rsync::is_parent_of
/// @bounds other = the concrete URI rsync://h/m/a, self = rsync://h/m/ + 2
///   and + 4 arbitrary valid path bytes; unwind 18
/// @says see rsync_relative_to_len6_len5; with a concrete `other` the
///   library's string primitives run on a constant pattern, which keeps
///   this member cheap whatever primitive the implementation uses
#[kani::proof]
#[kani::unwind(18)]
fn rsync_relative_to_concrete_other() {
    let (_, same) = rsync_relative_check::<14, 13>(
        any_rsync_fixed_module::<6, 14>(), rsync_h_m_a());
    kani::cover!(same);
    let (below, _) = rsync_relative_check::<16, 13>(
        any_rsync_fixed_module::<8, 16>(), rsync_h_m_a());
    kani::cover!(below);
}

/// A concrete tail behind a scheme whose letter case is arbitrary.
fn rsync_any_scheme_case<const N: usize, const M: usize>(tail: &[u8; N])
    -> (Rsync, &'static [u8; M], usize, usize) {
    let mask: u8 = kani::any();
    let buf: &'static [u8; M] =
        Box::leak(Box::new(rsync_uri_case::<N, M>(tail, mask)));
    (Rsync::verif_from_parts(bytes::Bytes::from_static(buf), 10, 12),
     buf, 1, 1)
}

/// @tier quick thorough
/// @fn rpki::uri::Rsync::relative_to rpki::uri::Rsync::is_parent_of rpki::uri::Rsync::eq
/// @bounds the concrete URIs h/m/a/b, h/m/a/, h/m/a (all-lowercase
///   authority) behind a scheme whose five letters are independently in
///   upper or lower case on either side (2^10 combinations per pair,
///   symbolic); unwind 16
/// @says the scheme is case-insensitive for the path algebra too: equal URIs
///   (whatever the case of the scheme) have the empty relative path, a URI
///   below another one has the expected remainder, parent-of agrees with ==
#[kani::proof]
#[kani::unwind(16)]
fn rsync_relative_to_scheme_case() {
    let (x, ..) = rsync_any_scheme_case::<7, 15>(b"h/m/a/b");
    let (x2, ..) = rsync_any_scheme_case::<7, 15>(b"h/m/a/b");
    let (y, ..) = rsync_any_scheme_case::<6, 14>(b"h/m/a/");
    let (z, ..) = rsync_any_scheme_case::<5, 13>(b"h/m/a");
    kani::cover!(x.as_slice()[0] != x2.as_slice()[0]);
    kani::cover!(x.as_slice()[4] == b'C' && y.as_slice()[4] == b'c');
    assert!(x == x2);
    match x.relative_to(&x2) {
        Some(r) => assert!(r.is_empty()),
        None => panic!("equal URIs must have the empty relative path"),
    }
    assert!(!x.is_parent_of(&x2) && !x2.is_parent_of(&x));
    match x.relative_to(&y) {
        Some(r) => assert!(r.len() == 1 && r.as_bytes()[0] == b'b'),
        None => panic!("h/m/a/b is below h/m/a/"),
    }
    match x.relative_to(&z) {
        Some(r) => assert!(r.len() == 1 && r.as_bytes()[0] == b'b'),
        None => panic!("h/m/a/b is below h/m/a"),
    }
    assert!(y.is_parent_of(&x) && z.is_parent_of(&x));
    assert!(!x.is_parent_of(&y) && y.relative_to(&x).is_none());
    std::mem::forget((x, x2, y, z));
}

/// @tier thorough
/// @fn rpki::uri::Rsync::is_parent_of rpki::uri::Rsync::relative_to rpki::uri::Rsync::eq
/// @bounds triples of valid URIs with tails of 4, 6 and 8 bytes (a parent
///   chain needs growing lengths) plus a second 4-byte URI; unwind 18
/// @says the parent-of relation is irreflexive, transitive, and agrees with
///   equality (equal URIs are parents of the same URIs)
#[kani::proof]
#[kani::unwind(18)]
fn rsync_parent_of_order_laws() {
    let (x, _, _, _) = any_valid_rsync::<4, 12>();
    let (x2, _, _, _) = any_valid_rsync::<4, 12>();
    let (y, _, _, _) = any_valid_rsync::<6, 14>();
    let (z, _, _, _) = any_valid_rsync::<8, 16>();
    kani::cover!(x.is_parent_of(&y) && y.is_parent_of(&z));
    kani::cover!(x == x2 && x.as_slice()[8] != x2.as_slice()[8]);
    assert!(!x.is_parent_of(&x) && !y.is_parent_of(&y));
    if x.is_parent_of(&y) && y.is_parent_of(&z) {
        assert!(x.is_parent_of(&z));
    }
    if x == x2 {
        assert_eq!(x.is_parent_of(&y), x2.is_parent_of(&y));
    }
    assert!(!y.is_parent_of(&x));
    std::mem::forget((x, x2, y, z));
}

fn rsync_parent_body<const N: usize, const M: usize>() {
    let (x, xb, xa, xm) = any_valid_rsync::<N, M>();
    let ps = 8 + xa + 1 + xm + 1;
    // reference: strip one trailing slash from the path; None if empty;
    // otherwise cut after the last slash of what remains (or at path start)
    let mut end = M;
    if end > ps && xb[end - 1] == b'/' {
        end -= 1;
    }
    let want = if end == ps {
        None
    } else {
        let mut cut = ps;
        let mut i = ps;
        while i < end {
            if xb[i] == b'/' { cut = i + 1; }
            i += 1;
        }
        Some(cut)
    };
    let got = x.parent();
    kani::cover!(want.is_none());
    kani::cover!(matches!(want, Some(c) if c > ps));
    match (&got, want) {
        (None, None) => {}
        (Some(p), Some(cut)) => {
            assert!(p.as_slice().len() == cut);
            assert!(p.verif_parts() == x.verif_parts());
            let k: usize = kani::any();
            kani::assume(k < cut);
            assert!(p.as_slice()[k] == xb[k]);
            // the parent is a directory of the same module and a parent-of
            assert!(p.as_slice()[cut - 1] == b'/');
            assert!(p.is_parent_of(&x));
        }
        _ => panic!("parent disagrees with the reference"),
    }
    std::mem::forget((x, got));
}

/// @tier off
/// @fn rpki::uri::Rsync::parent rpki::uri::Rsync::is_parent_of
/// @bounds any valid URI with a 7-byte tail (paths of up to 3 segments, e.g.
///   "a/m/x/y", "a/m/xy/", "a/m/x//" is not valid); unwind 17
/// @says the parent of a URI with an empty path does not exist; otherwise it
///   is the text up to and including the last slash before the last path
///   segment, keeps authority and module, is a valid directory URI and is a
///   parent-of the URI
#[kani::proof]
#[kani::unwind(17)]
fn rsync_parent_len7() { rsync_parent_body::<7, 15>(); }

/// @tier thorough
/// @fn rpki::uri::Rsync::parent rpki::uri::Rsync::is_parent_of
/// @bounds any valid URI with a 5-byte tail; unwind 15
/// @says see rsync_parent_len7
#[kani::proof]
#[kani::unwind(15)]
fn rsync_parent_len5() { rsync_parent_body::<5, 13>(); }

fn any_valid_https<const N: usize, const M: usize>()
    -> (Https, &'static [u8; M], usize) {
    let tail: [u8; N] = kani::any();
    let mut i = 0;
    while i < N {
        kani::assume(permitted(tail[i]));
        i += 1;
    }
    let buf: &'static [u8; M] = Box::leak(Box::new(https_uri::<N, M>(&tail)));
    let pi = ref_path_idx(buf);
    (Https::verif_from_parts(bytes::Bytes::from_static(buf), pi), buf, pi)
}

/// @tier quick thorough
/// @fn rpki::uri::Https::eq rpki::uri::Https::hash rpki::uri::Https::eq_authority
/// @bounds all pairs of valid HTTPS URIs with a 5-byte tail; unwind 16
/// @says HTTPS URIs are equal exactly when scheme and authority are equal
///   ignoring case and the path is equal exactly; symmetric, reflexive;
///   equal URIs hash equally and have equal authorities
#[kani::proof]
#[kani::unwind(16)]
fn https_eq_hash_len5() {
    let (x, xb, xp) = any_valid_https::<5, 13>();
    let (y, yb, yp) = any_valid_https::<5, 13>();
    let want = ref_rsync_eq(xb, xp - 8, yb, yp - 8);
    kani::cover!(want && xb[8] != yb[8]);
    kani::cover!(!want && xp == yp);
    assert_eq!(x == y, want);
    assert_eq!(y == x, want);
    assert!(x == x);
    if want {
        assert_eq!(hash_of(&x), hash_of(&y));
        assert!(x.eq_authority(&y));
    }
    std::mem::forget((x, y));
}

/// @tier off
/// @fn rpki::uri::Https::parent
/// @bounds any valid HTTPS URI with a 6-byte tail; unwind 16
/// @says the parent of an HTTPS URI whose path is empty or "/" does not
///   exist; otherwise it is the text up to and including the last slash
///   before the last path segment, with the same authority
#[kani::proof]
#[kani::unwind(16)]
fn https_parent_len6() {
    let (x, xb, pi) = any_valid_https::<6, 14>();
    let mut end = 14;
    if end > pi && xb[end - 1] == b'/' {
        end -= 1;
    }
    let want = if end == pi {
        None
    } else {
        let mut cut = pi;
        let mut i = pi;
        while i < end {
            if xb[i] == b'/' { cut = i + 1; }
            i += 1;
        }
        Some(cut)
    };
    let got = x.parent();
    kani::cover!(want.is_none() && pi < 14);
    kani::cover!(matches!(want, Some(c) if c > pi + 1));
    match (&got, want) {
        (None, None) => {}
        (Some(p), Some(cut)) => {
            assert!(p.as_slice().len() == cut);
            assert!(p.verif_parts() == pi);
            assert!(cut > pi && p.as_slice()[cut - 1] == b'/');
            let k: usize = kani::any();
            kani::assume(k < cut);
            assert!(p.as_slice()[k] == xb[k]);
        }
        _ => panic!("parent disagrees with the reference"),
    }
    std::mem::forget((x, got));
}

//------------ (J) join on concrete bases ---------------------------------------------

fn ref_rel_path_ok(p: &[u8]) -> bool {
    // permitted characters; no empty segment except a trailing one; no dot
    // segments
    let n = p.len();
    let mut seg_start = 0;
    let mut i = 0;
    while i <= n {
        if i == n || p[i] == b'/' {
            let len = i - seg_start;
            if len == 0 && i != n { return false; }
            if len == 1 && p[seg_start] == b'.' { return false; }
            if len == 2 && p[seg_start] == b'.' && p[seg_start + 1] == b'.' {
                return false;
            }
            seg_start = i + 1;
        } else if !permitted(p[i]) {
            return false;
        }
        i += 1;
    }
    true
}

fn rsync_join_body<const B: usize, const A: usize>(base: &'static [u8; B]) {
    let arg: [u8; A] = kani::any();
    let b = Rsync::from_slice(base).unwrap();
    let res = b.join(&arg);
    let ok = ref_rel_path_ok(&arg);
    kani::cover!(res.is_ok());
    kani::cover!(res.is_err());
    assert_eq!(res.is_ok(), ok);
    if let Ok(j) = &res {
        let slash = if base[B - 1] == b'/' { 0 } else { 1 };
        let s = j.as_slice();
        assert!(s.len() == B + slash + A);
        let k: usize = kani::any();
        kani::assume(k < B);
        assert!(s[k] == base[k]);
        if slash == 1 { assert!(s[B] == b'/'); }
        let k: usize = kani::any();
        kani::assume(k < A);
        assert!(s[B + slash + k] == arg[k]);
        // same authority/module offsets; the joined text is itself a valid
        // URI by the reference grammar with those offsets (so it re-parses
        // to an equal value), and it lies beneath the base
        assert!(j.verif_parts() == b.verif_parts());
        assert!(b.is_parent_of(j));
        assert!(!j.is_parent_of(&b));
        let rel = j.relative_to(&b).unwrap();
        assert!(rel.len() == A);
    }
    std::mem::forget((b, res));
}

/// @tier thorough
/// @fn rpki::uri::Rsync::join rpki::uri::Rsync::check_path rpki::uri::Rsync::is_parent_of
///   rpki::uri::Rsync::relative_to
/// @bounds base rsync://h/m/ (module root; the other base shapes have their
///   own members); argument of exactly 2 arbitrary bytes; unwind 18
/// @says join succeeds exactly when the argument has permitted characters
///   only and no empty (other than trailing) or dot segment; the result is
///   base [+ "/"] + argument, keeps authority and module, lies beneath the
///   base and relative_to gives back the appended part
/// @out arguments of other lengths than 2 (quick) and 3 (thorough); the
///   empty argument (returns a clone)
#[kani::proof]
#[kani::unwind(18)]
fn rsync_join_module_root_arg2() {
    rsync_join_body::<12, 2>(b"rsync://h/m/");
}

/// @tier thorough
/// @fn rpki::uri::Rsync::join rpki::uri::Rsync::check_path
/// @bounds base rsync://h/m/d (no trailing slash); 2 arbitrary bytes
/// @says see rsync_join_module_root_arg2
#[kani::proof]
#[kani::unwind(18)]
fn rsync_join_file_base_arg2() {
    rsync_join_body::<13, 2>(b"rsync://h/m/d");
}

/// @tier thorough
/// @fn rpki::uri::Rsync::join rpki::uri::Rsync::check_path
/// @bounds base rsync://h/m/d/ (directory); 2 arbitrary bytes
/// @says see rsync_join_module_root_arg2
#[kani::proof]
#[kani::unwind(18)]
fn rsync_join_dir_base_arg2() {
    rsync_join_body::<14, 2>(b"rsync://h/m/d/");
}

/// @tier thorough
/// @fn rpki::uri::Rsync::join rpki::uri::Rsync::check_path
/// @bounds base rsync://h/m/ ; 3 arbitrary bytes; unwind 19
/// @says see rsync_join_module_root_arg2
#[kani::proof]
#[kani::unwind(19)]
fn rsync_join_module_root_arg3_t() {
    rsync_join_body::<12, 3>(b"rsync://h/m/");
}

/// @tier thorough
/// @fn rpki::uri::Rsync::parent rpki::uri::Https::parent
/// @bounds enumerated concrete shapes (no symbolic input): module root,
///   file, directory, nested file, nested directory; unwind 20
/// @says the parent of a module root / path-less URI does not exist; the
///   parent of a file or directory URI is the enclosing directory (ending in
///   a slash), keeps authority and module and is a parent-of the URI
/// @out parent on arbitrary valid URIs is thorough-tier only (symbolic
///   truncation of the shared buffer exceeds the quick memory cap)
#[kani::proof]
#[kani::unwind(20)]
fn parent_on_enumerated_shapes() {
    kani::cover!(true);
    // (values assembled through the hook constructor with the offsets of
    // rsync://h/m/...: parsing is decided elsewhere and costs minutes per
    // call even on concrete text)
    let r = |s: &'static [u8]| Rsync::verif_from_parts(
        bytes::Bytes::from_static(s), 10, 12);
    assert!(r(b"rsync://h/m/").parent().is_none());
    let u = r(b"rsync://h/m/d"); let p = u.parent().unwrap();
    assert!(p.as_slice() == b"rsync://h/m/" && p.is_parent_of(&u));
    std::mem::forget((u, p));
    let u = r(b"rsync://h/m/d/"); let p = u.parent().unwrap();
    assert!(p.as_slice() == b"rsync://h/m/" && p.is_parent_of(&u));
    std::mem::forget((u, p));
    let u = r(b"rsync://h/m/d/e"); let p = u.parent().unwrap();
    assert!(p.as_slice() == b"rsync://h/m/d/" && p.is_parent_of(&u));
    std::mem::forget((u, p));
    let u = r(b"rsync://h/m/d/e/"); let p = u.parent().unwrap();
    assert!(p.as_slice() == b"rsync://h/m/d/" && p.is_parent_of(&u));
    assert!(p.verif_parts() == (10, 12));
    std::mem::forget((u, p));
    let h = |s: &'static [u8], pi: usize| Https::verif_from_parts(
        bytes::Bytes::from_static(s), pi);
    assert!(h(b"https://h", 9).parent().is_none());
    assert!(h(b"https://h/", 9).parent().is_none());
    let u = h(b"https://h/p", 9); let p = u.parent().unwrap();
    assert!(p.as_slice() == b"https://h/");
    std::mem::forget((u, p));
    let u = h(b"https://h/p/q/", 9); let p = u.parent().unwrap();
    assert!(p.as_slice() == b"https://h/p/" && p.verif_parts() == 9);
    std::mem::forget((u, p));
}

fn https_join_body<const B: usize, const A: usize>(base: &'static [u8; B]) {
    let arg: [u8; A] = kani::any();
    let b = Https::from_slice(base).unwrap();
    let alen = b.authority().len();
    let res = b.join(&arg);
    let mut ok = true;
    let mut i = 0;
    while i < A {
        if !permitted(arg[i]) { ok = false; }
        i += 1;
    }
    kani::cover!(res.is_ok());
    assert_eq!(res.is_ok(), ok);
    if let Ok(j) = &res {
        let s = j.as_slice();
        // the joined text must re-parse to the same authority: its first
        // slash after the scheme is where the base's authority ends (or the
        // base was path-less and a separator was inserted)
        assert!(ref_path_idx(s) == 8 + alen);
        assert!(j.authority().len() == alen);
        assert!(j.verif_parts() == ref_path_idx(s));
        // and it ends with the argument
        let k: usize = kani::any();
        kani::assume(k < A);
        assert!(s[s.len() - A + k] == arg[k]);
        let k: usize = kani::any();
        kani::assume(k < B);
        assert!(s[k] == base[k]);
    }
    std::mem::forget((b, res));
}

/// @tier quick thorough
/// @fn rpki::uri::Https::join rpki::uri::Https::authority
/// @bounds base https://h (path-less; the other base shapes https://h/,
///   https://h/p, https://h/p/ have their own members); argument of exactly
///   2 arbitrary bytes; unwind 16
/// @says join succeeds exactly for arguments of permitted characters; the
///   result starts with the base, ends with the argument, and is a URI that
///   re-parses with the base's authority (in particular joining onto a
///   path-less URI does not fuse the argument into the host name)
#[kani::proof]
#[kani::unwind(16)]
fn https_join_pathless_base() { https_join_body::<9, 2>(b"https://h"); }

/// @tier quick thorough
/// @fn rpki::uri::Https::join rpki::uri::Https::authority
/// @bounds base https://h/ ; argument of exactly 2 arbitrary bytes
/// @says see https_join_pathless_base
#[kani::proof]
#[kani::unwind(16)]
fn https_join_root_base() { https_join_body::<10, 2>(b"https://h/"); }

/// @tier quick thorough
/// @fn rpki::uri::Https::join rpki::uri::Https::authority
/// @bounds bases https://h/p and https://h/p/ ; argument of 2 arbitrary bytes
/// @says see https_join_pathless_base
#[kani::proof]
#[kani::unwind(16)]
fn https_join_file_and_dir_base() {
    https_join_body::<11, 2>(b"https://h/p");
    https_join_body::<12, 2>(b"https://h/p/");
}
