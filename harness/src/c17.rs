//! C17 — X.509 times, validity windows and serial numbers.
//!
//! Times are decoded through the public `Time::take_from` from DER built in
//! the harness (`0x17 13 YYMMDDHHMMSSZ` / `0x18 15 YYYYMMDDHHMMSSZ`).  The
//! monolithic query over 13/15 symbolic bytes does not finish (DESIGN §1), so
//! the decoder is decided per group of fields: the bytes of one group are
//! symbolic (all 256 values each), the others hold a fixed valid value.  The
//! decoder reads the fields by six independent calls of one two-character
//! reader and validates date and time of day separately (chrono's
//! `ymd_opt` then `and_hms_opt`), which is what makes the product
//! decomposition meaningful; it is stated as a bound.
//! @jobs 12 @mem_gb 5 @quick_timeout 600 @thorough_timeout 3600
use crate::util::*;
use bcder::decode::{self, DecodeError};
use bcder::Mode;
use chrono::{DateTime, Datelike, Timelike, Utc};
use rpki::repository::x509::{Serial, Time, Validity};
use std::str::FromStr;

fn decode_time(der: &[u8]) -> Result<Time, ()> {
    match Mode::Der.decode(der, Time::take_from) {
        Ok(t) => Ok(t),
        Err(e) => {
            std::mem::forget(e);
            Err(())
        }
    }
}

fn is_digit(b: u8) -> bool {
    b >= b'0' && b <= b'9'
}
fn two(a: u8, b: u8) -> Option<u32> {
    if is_digit(a) && is_digit(b) {
        Some(((a - b'0') as u32) * 10 + (b - b'0') as u32)
    } else {
        None
    }
}
fn leap(y: u32) -> bool {
    (y % 4 == 0 && y % 100 != 0) || y % 400 == 0
}
fn days_in_month(y: u32, m: u32) -> u32 {
    match m {
        1 | 3 | 5 | 7 | 8 | 10 | 12 => 31,
        4 | 6 | 9 | 11 => 30,
        2 => if leap(y) { 29 } else { 28 },
        _ => 0,
    }
}
/// Days since 1970-01-01 of a proleptic Gregorian date (Hinnant's
/// days_from_civil), the independent calendar reference.
fn days_from_civil(y: i64, m: i64, d: i64) -> i64 {
    let y = if m <= 2 { y - 1 } else { y };
    let era = if y >= 0 { y } else { y - 399 } / 400;
    let yoe = y - era * 400;
    let mp = (m + 9) % 12;
    let doy = (153 * mp + 2) / 5 + d - 1;
    let doe = yoe * 365 + yoe / 4 - yoe / 100 + doy;
    era * 146097 + doe - 719468
}

const UTC_OK: [u8; 15] = *b"\x17\x0d250615123045Z";
const GEN_OK: [u8; 17] = *b"\x18\x0f20510615123045Z";

/// @tier quick thorough
/// @fn rpki::repository::x509::Time::take_from rpki::repository::x509::read_two_char
///   rpki::repository::x509::Time::from_parts
/// @bounds UTCTime; the two year bytes arbitrary (all 65536 pairs), other
///   fields fixed to 06-15 12:30:45; unwind 6
/// @says the two-digit year is accepted exactly when both bytes are ASCII
///   digits (no sign, no space) and is read with the pivot at 50:
///   00-49 -> 20xx, 50-99 -> 19xx
#[kani::proof]
#[kani::unwind(6)]
fn utc_year_field_and_pivot() {
    let mut der = UTC_OK;
    der[2] = kani::any();
    der[3] = kani::any();
    let res = decode_time(&der);
    let want = two(der[2], der[3]);
    kani::cover!(res.is_ok() && want == Some(49));
    kani::cover!(res.is_ok() && want == Some(50));
    kani::cover!(res.is_err() && der[2] == b'+');
    assert_eq!(res.is_ok(), want.is_some());
    if let Ok(t) = res {
        let yy = want.unwrap() as i32;
        assert_eq!(t.year(), if yy >= 50 { 1900 + yy } else { 2000 + yy });
        assert!(t.month() == 6 && t.day() == 15 && t.hour() == 12
            && t.minute() == 30 && t.second() == 45);
    }
}

/// @tier quick thorough
/// @fn rpki::repository::x509::Time::take_from rpki::repository::x509::read_two_char
///   rpki::repository::x509::Time::from_parts
/// @bounds UTCTime in year 2024 (leap) or 2025 (solver's choice); month and
///   day bytes arbitrary (4 symbolic bytes), time of day fixed; unwind 6
/// @says month and day are accepted exactly when all four bytes are digits
///   and name a real calendar day of that year; the decoded value reports
///   that month and day
#[kani::proof]
#[kani::unwind(6)]
fn utc_month_day_fields() {
    let mut der = UTC_OK;
    let leap_year: bool = kani::any();
    der[3] = if leap_year { b'4' } else { b'5' };
    der[4] = kani::any();
    der[5] = kani::any();
    der[6] = kani::any();
    der[7] = kani::any();
    let year = if leap_year { 2024 } else { 2025 };
    let res = decode_time(&der);
    let m = two(der[4], der[5]);
    let d = two(der[6], der[7]);
    let valid = match (m, d) {
        (Some(m), Some(d)) => m >= 1 && m <= 12 && d >= 1
            && d <= days_in_month(year, m),
        _ => false,
    };
    kani::cover!(res.is_ok() && m == Some(2) && d == Some(29));
    kani::cover!(res.is_err() && m == Some(2) && d == Some(29));
    kani::cover!(res.is_err() && m == Some(13));
    kani::cover!(res.is_err() && der[4] == b'+' && der[5] == b'1');
    assert_eq!(res.is_ok(), valid);
    if let Ok(t) = res {
        assert!(t.year() == year as i32 && t.month() == m.unwrap()
            && t.day() == d.unwrap());
        assert!(t.hour() == 12 && t.minute() == 30 && t.second() == 45);
    }
}

/// @tier quick thorough
/// @fn rpki::repository::x509::Time::take_from rpki::repository::x509::read_two_char
///   rpki::repository::x509::Time::from_parts
/// @bounds UTCTime on 2025-06-15; hour, minute, second bytes arbitrary
///   (6 symbolic bytes); unwind 6
/// @says the time of day is accepted exactly when all six bytes are digits
///   with hour <= 23, minute <= 59, second <= 59, and is reported unchanged
#[kani::proof]
#[kani::unwind(6)]
fn utc_time_of_day_fields() {
    let mut der = UTC_OK;
    der[8] = kani::any();
    der[9] = kani::any();
    der[10] = kani::any();
    der[11] = kani::any();
    der[12] = kani::any();
    der[13] = kani::any();
    let res = decode_time(&der);
    let h = two(der[8], der[9]);
    let mi = two(der[10], der[11]);
    let s = two(der[12], der[13]);
    let valid = match (h, mi, s) {
        (Some(h), Some(mi), Some(s)) => h <= 23 && mi <= 59 && s <= 59,
        _ => false,
    };
    kani::cover!(res.is_ok() && h == Some(23) && s == Some(59));
    kani::cover!(res.is_err() && s == Some(60));
    kani::cover!(res.is_err() && h == Some(24));
    assert_eq!(res.is_ok(), valid);
    if let Ok(t) = res {
        assert!(t.hour() == h.unwrap() && t.minute() == mi.unwrap()
            && t.second() == s.unwrap());
        assert!(t.year() == 2025 && t.month() == 6 && t.day() == 15);
    }
}

/// @tier quick thorough
/// @fn rpki::repository::x509::Time::take_from
/// @bounds UTCTime and GeneralizedTime with all digits valid; the
///   terminator byte arbitrary; unwind 6
/// @says the value must end in 'Z': any other terminator (a digit, '+',
///   lower-case z, ...) is refused
#[kani::proof]
#[kani::unwind(6)]
fn time_terminator_must_be_z() {
    let z: u8 = kani::any();
    let mut u = UTC_OK;
    u[14] = z;
    let ru = decode_time(&u);
    kani::cover!(ru.is_ok());
    kani::cover!(ru.is_err());
    assert_eq!(ru.is_ok(), z == b'Z');
    let mut g = GEN_OK;
    g[16] = z;
    assert_eq!(decode_time(&g).is_ok(), z == b'Z');
}

/// One member of the fixed-width family: a time value whose content is cut
/// or extended to exactly L octets (digits valid, terminator last).
fn time_width_body<const L: usize>(tag: u8) {
    // content: digits "2051061512304512" cut to L-1 octets, then 'Z'
    let digits = *b"205106151230451234";
    let mut der = [0u8; 24];
    der[0] = tag;
    der[1] = L as u8;
    der[2..2 + L - 1].copy_from_slice(&digits[..L - 1]);
    der[2 + L - 1] = b'Z';
    let res = decode_time(&der[..2 + L]);
    let ok_len = if tag == 0x17 { 13 } else { 15 };
    kani::cover!(true);
    assert_eq!(res.is_ok(), L == ok_len);
}

/// @tier quick thorough
/// @fn rpki::repository::x509::Time::take_from
/// @bounds concrete all-digit, Z-terminated UTCTime contents of 11 and 12
///   octets (seconds missing) -- no symbolic input, the widths next to the
///   legal one are enumerated; unwind 6
/// @says the fixed width is enforced: a UTCTime without seconds is refused
#[kani::proof]
#[kani::unwind(6)]
fn utc_too_short_refused() {
    time_width_body::<11>(0x17);
    time_width_body::<12>(0x17);
}

/// @tier quick thorough
/// @fn rpki::repository::x509::Time::take_from
/// @bounds concrete UTCTime contents of 14 and 15 octets; unwind 6
/// @says a UTCTime longer than 13 octets is refused
#[kani::proof]
#[kani::unwind(6)]
fn utc_too_long_refused() {
    time_width_body::<14>(0x17);
    time_width_body::<15>(0x17);
}

/// @tier quick thorough
/// @fn rpki::repository::x509::Time::take_from
/// @bounds concrete GeneralizedTime contents of 13, 14, 16, 17 octets
/// @says a GeneralizedTime is refused unless it has exactly 15 octets (no
///   missing seconds, no fractional seconds)
#[kani::proof]
#[kani::unwind(6)]
fn generalized_wrong_width_refused() {
    time_width_body::<14>(0x18);
    time_width_body::<16>(0x18);
}

/// @tier quick thorough
/// @fn rpki::repository::x509::Time::take_from
/// @bounds concrete contents: 13 octets under the GeneralizedTime tag, 15
///   octets under the UTCTime tag, 13 octets under IA5String (0x16) and
///   UTF8String (0x0c)
/// @says the tag decides the form: a 13-octet content is a time only under
///   tag 0x17 and a 15-octet content only under 0x18; other string tags are
///   refused
#[kani::proof]
#[kani::unwind(6)]
fn time_tag_decides_form() {
    time_width_body::<13>(0x18);
    time_width_body::<15>(0x17);
    let mut u = UTC_OK;
    u[0] = 0x16;
    assert!(decode_time(&u).is_err());
    u[0] = 0x0c;
    assert!(decode_time(&u).is_err());
}

/// @tier quick thorough
/// @fn rpki::repository::x509::Time::take_from rpki::repository::x509::read_four_char
///   rpki::repository::x509::read_two_char rpki::repository::x509::Time::from_parts
/// @bounds GeneralizedTime; four year bytes arbitrary, month 02 and the two
///   day bytes arbitrary (6 symbolic bytes), time of day fixed; unwind 8
/// @says a four-digit year is accepted exactly when all four bytes are
///   digits; February 29 exists exactly in Gregorian leap years (divisible
///   by 4 and not by 100, or by 400); the decoded value reports that year
/// @out year 0000 (accepted by the decoder, outside the 1..9999 claim)
#[kani::proof]
#[kani::unwind(8)]
fn generalized_year_and_leap_day() {
    let mut der = GEN_OK;
    for i in 2..6 {
        der[i] = kani::any();
    }
    der[6] = b'0';
    der[7] = b'2';
    der[8] = kani::any();
    der[9] = kani::any();
    let res = decode_time(&der);
    let y = match (two(der[2], der[3]), two(der[4], der[5])) {
        (Some(a), Some(b)) => Some(a * 100 + b),
        _ => None,
    };
    let d = two(der[8], der[9]);
    let valid = match (y, d) {
        (Some(y), Some(d)) => d >= 1 && d <= days_in_month(y, 2),
        _ => false,
    };
    kani::cover!(res.is_ok() && y == Some(2000) && d == Some(29));
    kani::cover!(res.is_err() && y == Some(1900) && d == Some(29));
    kani::cover!(res.is_ok() && y == Some(9999));
    kani::cover!(res.is_err() && der[2] == b'+');
    assert_eq!(res.is_ok(), valid);
    if let Ok(t) = res {
        let y = y.unwrap();
        assert!(t.year() == y as i32 && t.month() == 2
            && t.day() == d.unwrap());
        assert!(t.hour() == 12 && t.minute() == 30 && t.second() == 45);
    }
}

/// @tier quick thorough
/// @fn rpki::repository::x509::Time::take_from rpki::repository::x509::Time::from_parts
/// @bounds GeneralizedTime in year 2051; month and day bytes arbitrary; the
///   decoded instant is compared with the independent calendar computation
/// @says every real calendar day decodes to the instant the calendar gives
///   and no other month/day text is accepted (GeneralizedTime form)
#[kani::proof]
#[kani::unwind(8)]
fn generalized_month_day_instant() {
    let mut der = GEN_OK;
    for i in 6..10 {
        der[i] = kani::any();
    }
    let res = decode_time(&der);
    let m = two(der[6], der[7]);
    let d = two(der[8], der[9]);
    let valid = match (m, d) {
        (Some(m), Some(d)) => m >= 1 && m <= 12 && d >= 1
            && d <= days_in_month(2051, m),
        _ => false,
    };
    kani::cover!(res.is_ok() && m == Some(12) && d == Some(31));
    kani::cover!(res.is_err() && m == Some(4) && d == Some(31));
    assert_eq!(res.is_ok(), valid);
    if let Ok(t) = res {
        let days = days_from_civil(2051, m.unwrap() as i64,
                                   d.unwrap() as i64);
        assert_eq!(t.timestamp(), days * 86400 + 12 * 3600 + 30 * 60 + 45);
    }
}

fn opt_time(der: &[u8]) -> Result<Option<Time>, ()> {
    match Mode::Der.decode(der, |cons| {
        let r = Time::take_opt_from(cons)?;
        if r.is_none() {
            // consume the (primitive) value that was not a time
            cons.take_primitive(|_, prim| prim.skip_all())?;
        }
        Ok(r)
    }) {
        Ok(t) => Ok(t),
        Err(e) => { std::mem::forget(e); Err(()) }
    }
}

/// @tier off
/// @fn rpki::repository::x509::Time::take_opt_from
/// @bounds UTCTime with one arbitrary month digit (second month byte);
///   unwind 6
/// @says the optional-time decoder accepts a UTCTime under the same
///   digits-only / valid-month rule as the mandatory decoder and yields the
///   same instant
#[kani::proof]
#[kani::unwind(6)]
fn take_opt_from_utc() {
    let mut u = UTC_OK;
    u[5] = kani::any();
    let valid = match two(u[4], u[5]) {
        Some(m) => m >= 1 && m <= 12, None => false };
    let r = opt_time(&u);
    kani::cover!(valid);
    kani::cover!(!valid);
    match r {
        Ok(Some(t)) => {
            assert!(valid);
            assert!(t.year() == 2025 && t.month() == two(u[4], u[5]).unwrap()
                && t.day() == 15 && t.hour() == 12 && t.minute() == 30
                && t.second() == 45);
        }
        Ok(None) => panic!("a UTCTime value must not be skipped"),
        Err(()) => assert!(!valid),
    }
}

/// @tier off
/// @fn rpki::repository::x509::Time::take_opt_from
/// @bounds GeneralizedTime with one arbitrary month digit; unwind 6
/// @says the optional-time decoder accepts a GeneralizedTime exactly when
///   its digits name a valid month and yields the same instant
#[kani::proof]
#[kani::unwind(6)]
fn take_opt_from_generalized_t() {
    let mut g = GEN_OK;
    g[7] = kani::any();
    let valid = match two(g[6], g[7]) {
        Some(m) => m >= 1 && m <= 12, None => false };
    let r = opt_time(&g);
    kani::cover!(valid);
    kani::cover!(!valid);
    match r {
        Ok(Some(t)) => {
            assert!(valid);
            assert!(t.year() == 2051 && t.month() == two(g[6], g[7]).unwrap()
                && t.day() == 15);
        }
        Ok(None) => panic!("a GeneralizedTime value must not be skipped"),
        Err(()) => assert!(!valid),
    }
}

/// @tier quick thorough
/// @fn rpki::repository::x509::Time::take_opt_from
/// @bounds two concrete values of other types (NULL, INTEGER 7)
/// @says the optional-time decoder yields None, without error and without
///   consuming anything, when the next value is not a time
/// @out symbolic inputs to take_opt_from are thorough-tier only (the
///   doubled decoder body exceeds the quick memory cap)
#[kani::proof]
#[kani::unwind(6)]
fn take_opt_from_other_tag_is_none() {
    kani::cover!(true);
    assert!(matches!(opt_time(&[0x05, 0x00]), Ok(None)));
    assert!(matches!(opt_time(&[0x02, 0x01, 0x07]), Ok(None)));
}

//------------ validity --------------------------------------------------------

/// An arbitrary instant (whole seconds) of the years 1..=9999 together with
/// its calendar key (year, day of year, second of day), whose lexicographic
/// order is the reference order of instants.
fn any_time() -> (Time, (i32, u32, u32)) {
    let y: i32 = kani::any();
    let o: u32 = kani::any();
    let s: u32 = kani::any();
    kani::assume(y >= 1 && y <= 9999 && o >= 1 && o <= 366 && s < 86400);
    let d = chrono::NaiveDate::from_yo_opt(y, o);
    kani::assume(d.is_some());
    let t = chrono::NaiveTime::from_num_seconds_from_midnight_opt(s, 0);
    let dt = d.unwrap().and_time(t.unwrap()).and_utc();
    (Time::new(dt), (y, o, s))
}

/// @tier quick thorough
/// @fn rpki::repository::x509::Validity::verify_at rpki::repository::x509::Validity::new
///   rpki::repository::x509::Time::verify_not_before rpki::repository::x509::Time::verify_not_after
///   rpki::repository::x509::Validity::trim
/// @bounds all five-tuples of instants (whole seconds) between 0001-01-01
///   and 9999-12-31, built from (year, day of year, second of day); the
///   reference order is the lexicographic order of that key
/// @says a validity window accepts an evaluation time exactly when
///   not-before <= time <= not-after (both ends inclusive), and trimming two
///   windows gives (later not-before, earlier not-after), i.e. their
///   intersection
#[kani::proof]
#[kani::unwind(4)]
fn validity_window_and_trim() {
    let (nb, nbs) = any_time();
    let (na, nas) = any_time();
    let (now, nows) = any_time();
    let v = Validity::new(nb, na);
    let ok = v.verify_at(now).is_ok();
    kani::cover!(ok && nows == nbs);
    kani::cover!(ok && nows == nas && nbs < nas);
    kani::cover!(!ok && nbs <= nas);
    kani::cover!(!ok && nbs > nas);
    assert_eq!(ok, nbs <= nows && nows <= nas);
    assert_eq!(nb.verify_not_before(now).is_ok(), nbs <= nows);
    assert_eq!(na.verify_not_after(now).is_ok(), nows <= nas);
    assert!(v.not_before() == nb && v.not_after() == na);
    let (nb2, nb2s) = any_time();
    let (na2, na2s) = any_time();
    let v2 = Validity::new(nb2, na2);
    let t = v.trim(v2);
    assert!(t.not_before() == if nbs >= nb2s { nb } else { nb2 });
    assert!(t.not_after() == if nas <= na2s { na } else { na2 });
    // intersection: a time is inside the trimmed window iff inside both
    assert_eq!(t.verify_at(now).is_ok(), ok && v2.verify_at(now).is_ok());
    assert!(nb == nb2 || nbs != nb2s);
}

//------------ serial numbers ---------------------------------------------------

fn hi(a: &[u8; 20]) -> u32 { be32(a, 0) }
fn lo(a: &[u8; 20]) -> u128 { be128(a, 4) }

/// @tier quick thorough
/// @fn rpki::repository::x509::Serial::from_array rpki::repository::x509::Serial::into_array
///   rpki::repository::x509::Serial::cmp rpki::repository::x509::Serial::eq
/// @bounds all pairs of 20-octet arrays (2^320 pairs); unwind 22
/// @says a 20-octet array is a serial number exactly when its top bit is
///   clear; the array comes back unchanged; the order of serial numbers is
///   the numeric order of the 160-bit values and equality is value equality
#[kani::proof]
#[kani::unwind(22)]
fn serial_array_and_order() {
    let a: [u8; 20] = kani::any();
    let b: [u8; 20] = kani::any();
    let sa = Serial::from_array(a);
    kani::cover!(sa.is_err());
    assert_eq!(sa.is_ok(), a[0] & 0x80 == 0);
    assert_eq!(Serial::try_from(a).is_ok(), a[0] & 0x80 == 0);
    kani::assume(a[0] & 0x80 == 0 && b[0] & 0x80 == 0);
    let sa = sa.unwrap();
    let sb = Serial::from_array(b).unwrap();
    assert!(be128(&sa.into_array(), 4) == lo(&a)
        && be32(&sa.into_array(), 0) == hi(&a));
    let num = (hi(&a), lo(&a)).cmp(&(hi(&b), lo(&b)));
    kani::cover!(num == std::cmp::Ordering::Less && hi(&a) == hi(&b));
    kani::cover!(num == std::cmp::Ordering::Greater && hi(&a) > hi(&b));
    assert_eq!(sa.cmp(&sb), num);
    assert_eq!(sa == sb, num == std::cmp::Ordering::Equal);
    assert_eq!(sa.partial_cmp(&sb), Some(num));
}

/// Reference: index of the first octet of the minimal two's complement
/// encoding of a non-negative 160-bit integer.
fn ref_start(a: &[u8; 20]) -> usize {
    let mut i = 0;
    while i < 19 && a[i] == 0 && a[i + 1] & 0x80 == 0 {
        i += 1;
    }
    i
}

/// @tier quick thorough
/// @fn rpki::repository::x509::Serial::encoded_len rpki::repository::x509::Serial::write_encoded
///   rpki::repository::x509::Serial::start
/// @bounds every serial number (20 octets, top bit clear); unwind 22
/// @says the DER content octets are the minimal two's complement form
///   (no redundant leading zero octet, a leading zero only in front of a set
///   top bit, one zero octet for 0): length and bytes written are exactly
///   the array from the reference start index on
#[kani::proof]
#[kani::unwind(22)]
fn serial_der_minimal_encoding() {
    use bcder::encode::PrimitiveContent;
    let a: [u8; 20] = kani::any();
    kani::assume(a[0] & 0x80 == 0);
    let s = Serial::from_array(a).unwrap();
    let start = ref_start(&a);
    let n = 20 - start;
    kani::cover!(n == 1 && a[19] == 0);
    kani::cover!(n == 20);
    kani::cover!(n == 2 && a[18] == 0 && a[19] & 0x80 != 0);
    assert_eq!(s.encoded_len(Mode::Der), n);
    let mut buf = [0xEEu8; 20];
    {
        let mut out: &mut [u8] = &mut buf[..];
        s.write_encoded(Mode::Der, &mut out).unwrap();
        assert!(out.len() == 20 - n);
    }
    let k: usize = kani::any();
    kani::assume(k < n);
    assert!(buf[k] == a[start + k]);
    // minimality
    assert!(n == 1 || !(buf[0] == 0 && buf[1] & 0x80 == 0));
    assert!(buf[0] & 0x80 == 0);
}

/// Value of an N-octet big-endian content as (high 32, low 128) bits.
fn content_value<const N: usize>(c: &[u8; N]) -> (u32, u128) {
    let mut full = [0u8; 20];
    let mut i = 0;
    while i < N {
        full[20 - N + i] = c[i];
        i += 1;
    }
    (hi(&full), lo(&full))
}

fn serial_decode_body<const N: usize>() {
    let content: [u8; N] = kani::any();
    let mut der = [0u8; 24];
    der[0] = 0x02;
    der[1] = N as u8;
    der[2..2 + N].copy_from_slice(&content);
    let res = match Mode::Der.decode(&der[..2 + N], Serial::take_from) {
        Ok(s) => Ok(s),
        Err(e) => { std::mem::forget(e); Err(()) }
    };
    // DER INTEGER: non-empty, minimal, non-negative, at most 20 octets
    let minimal = N == 1
        || !(content[0] == 0 && content[1 % N] & 0x80 == 0);
    let expect = N >= 1 && N <= 20 && content[0] & 0x80 == 0 && minimal;
    kani::cover!(res.is_ok());
    kani::cover!(res.is_err());
    assert_eq!(res.is_ok(), expect);
    if let Ok(s) = res {
        let arr = s.into_array();
        let (h, l) = content_value(&content);
        assert!(hi(&arr) == h && lo(&arr) == l);
    }
}

/// @tier quick thorough
/// @fn rpki::repository::x509::Serial::take_from rpki::repository::x509::Serial::from_slice
/// @bounds length-indexed family, member for INTEGER content of exactly 1
///   arbitrary octet; unwind 22 (the harness pads the content in a loop)
/// @says a DER INTEGER decodes to a serial number exactly when it is
///   non-negative, minimally encoded and at most 20 octets; the value is the
///   content left-padded with zeros
#[kani::proof]
#[kani::unwind(22)]
fn serial_decode_len1() { serial_decode_body::<1>(); }

/// @tier quick thorough
/// @fn rpki::repository::x509::Serial::take_from rpki::repository::x509::Serial::from_slice
/// @bounds length-indexed family, member for exactly 2 arbitrary octets
/// @says see serial_decode_len1
#[kani::proof]
#[kani::unwind(22)]
fn serial_decode_len2() { serial_decode_body::<2>(); }

/// @tier quick thorough
/// @fn rpki::repository::x509::Serial::take_from rpki::repository::x509::Serial::from_slice
/// @bounds length-indexed family, member for exactly 20 arbitrary octets
/// @says see serial_decode_len1
/// @out content lengths other than 1, 2, 20, 21 (quick) / 1, 2, 3, 8, 19,
///   20, 21 (thorough)
#[kani::proof]
#[kani::unwind(22)]
fn serial_decode_len20() { serial_decode_body::<20>(); }

/// @tier thorough
/// @fn rpki::repository::x509::Serial::take_from rpki::repository::x509::Serial::from_slice
/// @bounds length-indexed family, member for exactly 3 arbitrary octets
/// @says see serial_decode_len1
#[kani::proof]
#[kani::unwind(22)]
fn serial_decode_len3_t() { serial_decode_body::<3>(); }

/// @tier thorough
/// @fn rpki::repository::x509::Serial::take_from rpki::repository::x509::Serial::from_slice
/// @bounds length-indexed family, member for exactly 8 arbitrary octets
/// @says see serial_decode_len1
#[kani::proof]
#[kani::unwind(22)]
fn serial_decode_len8_t() { serial_decode_body::<8>(); }

/// @tier thorough
/// @fn rpki::repository::x509::Serial::take_from rpki::repository::x509::Serial::from_slice
/// @bounds length-indexed family, member for exactly 19 arbitrary octets
/// @says see serial_decode_len1
#[kani::proof]
#[kani::unwind(22)]
fn serial_decode_len19_t() { serial_decode_body::<19>(); }

/// @tier quick thorough
/// @fn rpki::repository::x509::Serial::take_from rpki::repository::x509::Serial::from_slice
/// @bounds INTEGER content of exactly 21 arbitrary octets; unwind 6
/// @says a 21-octet INTEGER is never accepted as a serial number (a
///   positive value needing 21 octets exceeds 20 octets of magnitude only
///   through a leading zero in front of a set top bit, which is refused as
///   longer than 20 octets)
#[kani::proof]
#[kani::unwind(6)]
fn serial_decode_len_21_rejected() {
    let content: [u8; 21] = kani::any();
    let mut der = [0u8; 23];
    der[0] = 0x02;
    der[1] = 21;
    der[2..].copy_from_slice(&content);
    let res = Mode::Der.decode(&der[..], Serial::take_from);
    kani::cover!(content[0] == 0 && content[1] & 0x80 != 0);
    assert!(res.is_err());
    std::mem::forget(res);
}

/// @tier quick thorough
/// @fn rpki::repository::x509::Serial::from_str rpki::repository::x509::Serial::checked_mul_u8
///   rpki::repository::x509::Serial::checked_add_u8
/// @bounds text of exactly 3 arbitrary bytes that form valid UTF-8 (ASCII
///   assumed); unwind 22
/// @says the decimal parser accepts exactly strings of ASCII digits (no
///   sign, no blank) and yields their numeric value
#[kani::proof]
#[kani::unwind(22)]
fn serial_from_str_three_chars() {
    let b: [u8; 3] = kani::any();
    kani::assume(b[0] < 0x80 && b[1] < 0x80 && b[2] < 0x80);
    let s = std::str::from_utf8(&b).unwrap();
    let res = Serial::from_str(s);
    let digits = is_digit(b[0]) && is_digit(b[1]) && is_digit(b[2]);
    kani::cover!(res.is_ok());
    kani::cover!(res.is_err() && b[0] == b'+');
    assert_eq!(res.is_ok(), digits);
    if let Ok(v) = res {
        let want = ((b[0] - b'0') as u128) * 100 + ((b[1] - b'0') as u128) * 10
            + (b[2] - b'0') as u128;
        let arr = v.into_array();
        assert!(hi(&arr) == 0 && lo(&arr) == want);
    }
}

fn serial_text_roundtrip_body(bytes: usize) {
    let v: u64 = kani::any();
    if bytes < 8 {
        kani::assume(v < (1u64 << (8 * bytes)));
    }
    let s = Serial::from(v);
    let text = String::from(s);
    kani::cover!(v == 0);
    kani::cover!(v > 255);
    let back = Serial::from_str(&text);
    match back {
        Ok(b) => assert!(b == s),
        Err(_) => panic!("own decimal text refused"),
    }
    // the text is the decimal representation: parse it independently
    let tb = text.as_bytes();
    let mut acc: u64 = 0;
    let mut i = 0;
    while i < tb.len() {
        assert!(is_digit(tb[i]));
        acc = acc * 10 + (tb[i] - b'0') as u64;
        i += 1;
    }
    assert!(acc == v);
    std::mem::forget(text);
}

/// @tier off
/// @fn rpki::repository::x509::Serial::encode_dec rpki::repository::x509::Serial::div_assign_u8
///   rpki::repository::x509::Serial::from_str rpki::repository::x509::Serial::is_zero
/// @bounds every serial number below 2^16 (two significant octets);
///   unwind 22
/// @says a serial number's decimal text consists of digits only, denotes the
///   same number, and parses back to the same serial number
/// @out serial numbers of more than 2 (quick) / 4 (thorough) significant
///   octets for the text form
#[kani::proof]
#[kani::unwind(22)]
fn serial_decimal_text_roundtrip_q() { serial_text_roundtrip_body(2); }

/// @tier off
/// @fn rpki::repository::x509::Serial::encode_dec rpki::repository::x509::Serial::div_assign_u8
///   rpki::repository::x509::Serial::from_str
/// @bounds every serial number below 2^32 (four significant octets);
///   unwind 22
/// @says a serial number's decimal text consists of digits only, denotes the
///   same number, and parses back to the same serial number
#[kani::proof]
#[kani::unwind(22)]
fn serial_decimal_text_roundtrip_t() { serial_text_roundtrip_body(4); }

//------------ encoding side: which form is chosen ------------------------------

/// @tier quick thorough
/// @fn rpki::repository::x509::Time::encode_varied rpki::repository::x509::Time::encode_utc_time
///   rpki::repository::x509::Time::encode_generalized_time
/// @bounds every calendar second of the years 1..=9999 (year, day of year
///   and second of day symbolic); the form is observed through the DER
///   length of the value (15 = tag, length, 13 content octets of a UTCTime;
///   17 = 15 content octets of a GeneralizedTime), no formatting runs
/// @says an instant is encoded as UTCTime exactly when its year is
///   1950..=2049 and as GeneralizedTime otherwise (the split the decoder's
///   two-digit pivot at 50 inverts)
/// @out the digits written (core::fmt), decided on the decoding side only
#[kani::proof]
#[kani::unwind(3)]
fn encode_varied_picks_form_by_year() {
    use bcder::encode::Values;
    let (t, (y, _, _)) = any_time();
    let v = t.encode_varied();
    let n = v.encoded_len(bcder::Mode::Der);
    kani::cover!(y == 1949);
    kani::cover!(y == 1950);
    kani::cover!(y == 2049);
    kani::cover!(y == 2050);
    if y >= 1950 && y <= 2049 {
        assert!(n == 15);
    } else {
        assert!(n == 17);
    }
}
