//! C04 — decoders never panic or run away on arbitrary input; accessors of
//! decoded values are panic-free.  Decided here only for the *accessor* part
//! that is pure integer code: the item counts of AS resource blocks, on every
//! value the public constructors and the DER block decoder can produce.
//! Everything that needs a certificate (Kani ICE in the IP-resources decoder)
//! or a long bcder decode is outside, see DESIGN §3 C04.
//! @jobs 4 @mem_gb 8 @quick_timeout 600 @thorough_timeout 1800
use crate::util::*;
use bcder::decode::IntoSource;
use bcder::Mode;
use rpki::repository::resources::{Addr, AsBlock, AsBlocks, Prefix};
use rpki::resources::asn::Asn;

fn asn(v: u32) -> Asn { Asn::from_u32(v) }

/// @tier quick thorough
/// @fn rpki::repository::resources::asres::AsRange::asn_count rpki::repository::resources::asres::AsBlock::asn_count
/// @bounds every pair lo <= hi of u32 (full width), block built through the
///   public constructor `AsBlock::from((min, max))`
/// @says counting the AS numbers of a block never panics -- in particular
///   not for the block covering the whole number space (AS0-AS4294967295,
///   which every trust anchor certificate carries) -- and equals hi-lo+1
///   whenever that fits a u32
#[kani::proof]
#[kani::unwind(2)]
fn as_block_count_never_panics() {
    let lo: u32 = kani::any();
    let hi: u32 = kani::any();
    kani::assume(lo <= hi);
    let b = AsBlock::from((asn(lo), asn(hi)));
    let c = b.asn_count();
    let r = match b { AsBlock::Range(r) => r.asn_count(), AsBlock::Id(_) => 1 };
    kani::cover!(lo == 0 && hi == u32::MAX);
    kani::cover!(lo == hi);
    if !(lo == 0 && hi == u32::MAX) {
        assert!(c == hi - lo + 1 && r == c);
    }
}

/// @tier quick thorough
/// @fn rpki::repository::resources::asres::AsBlocks::asn_count rpki::repository::resources::asres::AsBlocks::all
/// @bounds the one concrete value `AsBlocks::all()`
/// @says the item count of the "all AS numbers" set does not panic
#[kani::proof]
#[kani::unwind(3)]
fn as_blocks_all_count_never_panics() {
    let all = AsBlocks::all();
    let c = all.asn_count();
    kani::cover!(c > 0);
    std::mem::forget(all);
}

/// @tier quick thorough
/// @fn rpki::repository::resources::asres::AsBlocks::asn_count
/// @bounds canonical sets of two full-width blocks (ascending, disjoint,
///   non-adjacent -- the form every public constructor establishes, decided
///   under C03), assembled through the hook constructor; unwind 4
/// @says the item count of a set is the sum of its blocks' counts and never
///   panics
#[kani::proof]
#[kani::unwind(4)]
fn as_blocks_count_two_blocks() {
    let a: u32 = kani::any();
    let b: u32 = kani::any();
    let c: u32 = kani::any();
    let d: u32 = kani::any();
    kani::assume(a <= b && b < c && c - b >= 2 && c <= d);
    let blocks = AsBlocks::verif_from_vec_unchecked(vec![
        AsBlock::from((asn(a), asn(b))), AsBlock::from((asn(c), asn(d)))]);
    let n = blocks.asn_count();
    kani::cover!(a == 0 && d == u32::MAX);
    assert!(n as u64 == (b - a) as u64 + 1 + (d - c) as u64 + 1);
    std::mem::forget(blocks);
}

/// @tier off
/// @fn rpki::repository::resources::asres::AsBlock::take_opt_from rpki::repository::resources::asres::AsRange::parse_content
///   rpki::repository::resources::asres::AsBlock::asn_count rpki::repository::resources::asres::AsBlock::min
/// @bounds the DER value SEQUENCE { INTEGER x, INTEGER y } with one content
///   octet each, x and y arbitrary octets (so also negative and x > y);
///   unwind 10
/// @says whatever the block decoder accepts is a block with min <= max, and
///   its accessors (bounds, count) do not panic
/// @out longer integers, the id form, sequences of blocks.  NOT DECIDED:
///   426 k symex steps, solver out of 12 GB -- kept for the record
#[kani::proof]
#[kani::unwind(10)]
fn decoded_as_range_is_ordered_and_countable() {
    let x: u8 = kani::any();
    let y: u8 = kani::any();
    let der: [u8; 8] = [0x30, 0x06, 0x02, 0x01, x, 0x02, 0x01, y];
    let res = Mode::Der.decode(
        der.as_ref().into_source(), |cons| AsBlock::take_opt_from(cons));
    kani::cover!(matches!(res, Ok(Some(_))));
    kani::cover!(res.is_err());
    if let Ok(Some(b)) = res {
        assert!(x < 0x80 && y < 0x80);
        assert!(b.min() <= b.max());
        assert!(b.min().into_u32() == x as u32);
        let n = b.asn_count();
        assert!(n == (y - x) as u32 + 1);
    }
    std::mem::forget(res);
}

/// @tier quick thorough
/// @fn rpki::repository::resources::asres::AsBlock::iter rpki::repository::resources::asres::AsBlockIter::next
/// @bounds every block lo..=hi of at most 4 AS numbers anywhere in the u32
///   space, in particular ending at 4294967295; unwind 7
/// @says iterating the AS numbers of a block yields exactly lo, lo+1, .., hi
///   and then ends -- no overflow panic and no endless iteration at the top
///   of the number space
#[kani::proof]
#[kani::unwind(7)]
fn as_block_iter_terminates_at_the_top() {
    let lo: u32 = kani::any();
    let hi: u32 = kani::any();
    kani::assume(lo <= hi && hi - lo <= 3);
    let b = AsBlock::from((asn(lo), asn(hi)));
    let mut it = b.iter();
    let mut k: u32 = 0;
    while k <= hi - lo {
        match it.next() {
            Some(x) => assert!(x.into_u32() == lo + k),
            None => panic!("iterator ended early"),
        }
        k += 1;
    }
    assert!(it.next().is_none());
    assert!(it.next().is_none());
    kani::cover!(hi == u32::MAX && lo < hi);
    kani::cover!(lo == hi);
}

/// @tier quick thorough
/// @fn rpki::repository::resources::ipres::Addr::to_min rpki::repository::resources::ipres::Addr::to_max
///   rpki::repository::resources::ipres::Prefix::new rpki::repository::resources::ipres::Prefix::min
///   rpki::repository::resources::ipres::Prefix::max
/// @bounds every u128 address and every u8 length for the masks; every
///   length 0..=128 for the prefix accessors
/// @says the host-bit masks never panic (no shift overflow at length 0, 128
///   or above) and are the lowest / highest address of the prefix; the
///   bounds of a prefix of any permitted length can be taken without panic
///   and enclose its address
#[kani::proof]
#[kani::unwind(2)]
fn addr_masks_never_panic() {
    let a: u128 = kani::any();
    let len: u8 = kani::any();
    let lo = Addr::from(a).to_min(len);
    let hi = Addr::from(a).to_max(len);
    let host = host_mask_v6(len);
    assert!(u128::from(lo) == a & !host);
    assert!(u128::from(hi) == a | host);
    kani::cover!(len == 0);
    kani::cover!(len == 128);
    kani::cover!(len == 255);
    if len <= 128 {
        let p = Prefix::new(Addr::from(a), len);
        assert!(p.addr_len() == len);
        assert!(u128::from(p.min()) <= u128::from(p.max()));
        assert!(u128::from(p.min()) == a & !host);
        assert!(u128::from(p.max()) == a | host);
    }
}

fn bit_string_prefix<const N: usize>() {
    let octets: [u8; N] = kani::any();
    let unused: u8 = kani::any();
    kani::assume(unused <= 7 && (N > 0 || unused == 0));
    let leaked: &'static [u8; N] = Box::leak(Box::new(octets));
    let bs = bcder::BitString::new(
        unused, bytes::Bytes::from_static(&leaked[..]));
    let res = Prefix::from_bit_string(&bs);
    kani::cover!(res.is_ok() == (N <= 16));
    match res {
        Ok(p) => {
            assert!(N <= 16);
            assert!(p.addr_len() as usize == 8 * N - unused as usize);
            // the address is the octets, left-aligned, with the bits
            // beyond the prefix length cleared
            let a = u128::from(p.addr());
            let raw: u128 = if N == 0 { 0 }
                else if N == 1 { (octets[0] as u128) << 120 }
                else if N == 2 {
                    ((octets[0] as u128) << 120) | ((octets[1] as u128) << 112)
                }
                else { be128(&octets[..], 0) };
            assert!(a == raw & !host_mask_v6(p.addr_len()));
            let _ = (p.min(), p.max());
        }
        Err(_) => assert!(N > 16),
    }
    std::mem::forget(bs);
}

/// @tier quick thorough
/// @fn rpki::repository::resources::ipres::Prefix::from_bit_string rpki::repository::resources::ipres::Prefix::new
/// @bounds BIT STRING values of 0, 1, 2, 16 and 17 octets with arbitrary
///   content and every permitted number of unused bits (this is the value
///   the IP-resources and ROA decoders hand to this function); unwind 19
/// @says converting the BIT STRING of an encoded prefix never panics: more
///   than 16 octets are refused, otherwise the length is 8*octets - unused
///   (so at most 128, the guard of `Prefix::new`) and the address is the
///   octets left-aligned with the bits beyond the length cleared; bounds
///   can be taken
/// @out octet counts 3..15
#[kani::proof]
#[kani::unwind(19)]
fn prefix_from_bit_string_never_panics() {
    bit_string_prefix::<0>();
    bit_string_prefix::<1>();
    bit_string_prefix::<2>();
    bit_string_prefix::<16>();
    bit_string_prefix::<17>();
}
