//! C14 — Manifest entries cannot name anything outside the publication
//! point.
//!
//! PARTIAL.  Decided: the file-name rule applied to every manifest entry
//! (through a hook wrapper of the private `validate_file_name`, which both
//! entry decoders call) on every byte string of 4..=7 bytes, and that every
//! accepted name is a valid single-segment join argument by the grammar the
//! C12 join harnesses decide.  NOT decided: decoding of whole manifests
//! (a CMS object embeds a certificate; Kani ICE on the IP-resources decoder),
//! `iter_uris`, `len`, the this/next-update order and the hash check (FFI).
//! @jobs 8 @mem_gb 5 @quick_timeout 600 @thorough_timeout 1800
use crate::util::*;
use rpki::repository::manifest::verif_validate_file_name;

fn alnum(c: u8) -> bool {
    (c >= b'0' && c <= b'9') || (c >= b'a' && c <= b'z')
        || (c >= b'A' && c <= b'Z')
}
fn alpha(c: u8) -> bool {
    (c >= b'a' && c <= b'z') || (c >= b'A' && c <= b'Z')
}

/// RFC 9286 4.2.2: stem of [A-Za-z0-9_-]+, ".", three letters.
/// Returns (well_formed, stem_empty).
fn ref_name<const N: usize>(n: &[u8; N]) -> (bool, bool) {
    // the extension is the last three bytes, preceded by the only dot
    if N < 4 {
        return (false, false);
    }
    let mut ok = n[N - 4] == b'.' && alpha(n[N - 3]) && alpha(n[N - 2])
        && alpha(n[N - 1]);
    let mut i = 0;
    while i + 4 < N {
        let c = n[i];
        if !(alnum(c) || c == b'-' || c == b'_') { ok = false; }
        i += 1;
    }
    (ok, N == 4)
}

fn permitted_uri(ch: u8) -> bool {
    ch == b'!' || (ch >= b'$' && ch <= b';') || ch == b'='
        || (ch >= b'A' && ch <= b'Z') || ch == b'_'
        || (ch >= b'a' && ch <= b'z') || ch == b'~'
}

fn name_body<const N: usize>() {
    let name: [u8; N] = kani::any();
    let got = verif_validate_file_name(&name);
    let (want, empty_stem) = ref_name(&name);
    kani::cover!(got);
    kani::cover!(!got && name[N - 4] == b'.');
    if !empty_stem {
        assert_eq!(got, want);
    } else {
        // ".xyz": RFC 9286 asks for a non-empty stem; the property text does
        // not, and such a name cannot leave the directory.  Only the safe
        // direction is demanded.
        assert!(!got || want);
    }
    if got {
        // an accepted name is one non-empty, non-dot path segment of
        // characters the URI grammar permits: joining it to a directory URI
        // succeeds and stays directly inside that directory
        let mut i = 0;
        while i < N {
            assert!(name[i] != b'/' && permitted_uri(name[i]));
            i += 1;
        }
        assert!(!(N == 1 && name[0] == b'.'));
        assert!(!(N == 2 && name[0] == b'.' && name[1] == b'.'));
    }
}

/// @tier quick thorough
/// @fn rpki::repository::manifest::FileAndHash::validate_file_name
/// @bounds length-indexed family, member for every name of exactly 4 bytes
///   (all 2^32): the shortest possible form ".ext"; unwind 8
/// @says a listed file name is accepted only if it is letters, digits, '-',
///   '_' followed by one dot and a three-letter extension; every accepted
///   name is free of '/', is not a dot segment and consists of characters
///   valid in a URI, so resolving it against a directory cannot fail or
///   leave the directory
#[kani::proof]
#[kani::unwind(8)]
fn file_name_len4() { name_body::<4>(); }

/// @tier quick thorough
/// @fn rpki::repository::manifest::FileAndHash::validate_file_name
/// @bounds every name of exactly 5 bytes; unwind 9
/// @says see file_name_len4 (accepted exactly for one valid stem character
///   + "." + three letters)
#[kani::proof]
#[kani::unwind(9)]
fn file_name_len5() { name_body::<5>(); }

/// @tier quick thorough
/// @fn rpki::repository::manifest::FileAndHash::validate_file_name
/// @bounds every name of exactly 6 bytes; unwind 10
/// @says see file_name_len4
#[kani::proof]
#[kani::unwind(10)]
fn file_name_len6() { name_body::<6>(); }

/// @tier quick thorough
/// @fn rpki::repository::manifest::FileAndHash::validate_file_name
/// @bounds every name of exactly 7 bytes (e.g. "../.roa", "a/b.cer",
///   "a.b.roa" are in this space); unwind 11
/// @says see file_name_len4
/// @out names longer than 7 (quick) / 12 (thorough) bytes
#[kani::proof]
#[kani::unwind(11)]
fn file_name_len7() { name_body::<7>(); }

/// @tier thorough
/// @fn rpki::repository::manifest::FileAndHash::validate_file_name
/// @bounds every name of exactly 12 bytes; unwind 16
/// @says see file_name_len4
#[kani::proof]
#[kani::unwind(16)]
fn file_name_len12_t() { name_body::<12>(); }

/// @tier quick thorough
/// @fn rpki::repository::manifest::FileAndHash::validate_file_name
/// @bounds every name of 0, 1, 2 and 3 bytes
/// @says names too short to carry a dot and a three-letter extension are
///   refused (in particular "", ".", "..")
#[kani::proof]
#[kani::unwind(6)]
fn file_name_too_short() {
    let n: [u8; 3] = kani::any();
    kani::cover!(n[0] == b'.' && n[1] == b'.');
    assert!(!verif_validate_file_name(&n[..0]));
    assert!(!verif_validate_file_name(&n[..1]));
    assert!(!verif_validate_file_name(&n[..2]));
    assert!(!verif_validate_file_name(&n[..3]));
}
