//! C16 — RTR serial numbers compare and advance per RFC 1982.
//!
//! All harnesses are loop-free integer code at full width: there is no bound
//! below the width of the types (u32 × u32, u32 × u32 × u32).
//! @jobs 8 @mem_gb 6 @quick_timeout 300 @thorough_timeout 900
use rpki::rtr::pdu;
use rpki::rtr::state::{Serial, State};
use std::cmp::Ordering;

/// Reference from the property text / RFC 1982 on d = b - a (mod 2^32).
fn reference(a: u32, b: u32) -> Option<Ordering> {
    let d = b.wrapping_sub(a);
    if d == 0 {
        Some(Ordering::Equal)
    } else if d < 0x8000_0000 {
        Some(Ordering::Less)
    } else if d == 0x8000_0000 {
        None
    } else {
        Some(Ordering::Greater)
    }
}

/// @tier quick thorough
/// @fn rpki::rtr::state::Serial::partial_cmp rpki::rtr::state::Serial::eq
/// @bounds all 2^64 pairs (a, b) of u32; no loops
/// @says partial_cmp(a, b) equals the RFC 1982 reference on (b - a) mod 2^32
///   (Equal at 0, Less for 1..2^31-1, None at 2^31, Greater beyond) and ==
///   holds exactly when the comparison says Equal
#[kani::proof]
fn cmp_matches_rfc1982() {
    let a: u32 = kani::any();
    let b: u32 = kani::any();
    let got = Serial(a).partial_cmp(&Serial(b));
    kani::cover!(got.is_none());
    kani::cover!(got == Some(Ordering::Less) && a > b);
    kani::cover!(got == Some(Ordering::Greater) && a < b);
    assert_eq!(got, reference(a, b));
    assert_eq!(Serial(a) == Serial(b), got == Some(Ordering::Equal));
}

/// @tier quick thorough
/// @fn rpki::rtr::state::Serial::partial_cmp
/// @bounds all 2^64 pairs; no loops
/// @says comparison is antisymmetric: cmp(a,b) == reverse(cmp(b,a)), and
///   undefined in one direction iff undefined in the other
#[kani::proof]
fn cmp_antisymmetric() {
    let a: u32 = kani::any();
    let b: u32 = kani::any();
    let ab = Serial(a).partial_cmp(&Serial(b));
    let ba = Serial(b).partial_cmp(&Serial(a));
    kani::cover!(ab == Some(Ordering::Greater));
    kani::cover!(ab.is_none());
    assert_eq!(ab, ba.map(Ordering::reverse));
    // derived operators agree with partial_cmp
    assert_eq!(Serial(a) < Serial(b), ab == Some(Ordering::Less));
    assert_eq!(Serial(a) > Serial(b), ab == Some(Ordering::Greater));
    assert_eq!(Serial(a) <= Serial(b),
               matches!(ab, Some(Ordering::Less | Ordering::Equal)));
}

/// @tier quick thorough
/// @fn rpki::rtr::state::Serial::partial_cmp
/// @bounds all 2^96 triples (a, d, e) with the same difference; no loops
/// @says the comparison depends only on the difference modulo 2^32:
///   cmp(a, a+d) == cmp(e, e+d) for every base a, e and difference d
#[kani::proof]
fn cmp_depends_only_on_difference() {
    let a: u32 = kani::any();
    let e: u32 = kani::any();
    let d: u32 = kani::any();
    let x = Serial(a).partial_cmp(&Serial(a.wrapping_add(d)));
    let y = Serial(e).partial_cmp(&Serial(e.wrapping_add(d)));
    kani::cover!(a.checked_add(d).is_none() && e.checked_add(d).is_some());
    assert_eq!(x, y);
}

/// @tier quick thorough
/// @fn rpki::rtr::state::Serial::add rpki::rtr::state::Serial::partial_cmp
/// @bounds all serials s and all increments n in 1..=2^31-1; no loops
/// @says adding any n in 1..2^31-1 yields a strictly greater serial, also
///   across the wrap, and the result is s+n modulo 2^32
#[kani::proof]
fn add_is_strictly_greater() {
    let s: u32 = kani::any();
    let n: u32 = kani::any();
    kani::assume(n >= 1 && n <= 0x7FFF_FFFF);
    let t = Serial(s).add(n);
    kani::cover!(t.0 < s); // wrapped
    assert_eq!(t.0, s.wrapping_add(n));
    assert_eq!(t.partial_cmp(&Serial(s)), Some(Ordering::Greater));
    assert_eq!(Serial(s).partial_cmp(&t), Some(Ordering::Less));
    assert!(t != Serial(s));
}

/// @tier quick thorough
/// @fn rpki::rtr::state::Serial::add
/// @bounds all serials, n = 0
/// @says adding zero is the identity
#[kani::proof]
fn add_zero_identity() {
    let s: u32 = kani::any();
    kani::cover!(s == u32::MAX);
    assert!(Serial(s).add(0) == Serial(s));
}

/// @tier quick thorough
/// @fn rpki::rtr::state::Serial::add
/// @bounds all serials and all n >= 2^31
/// @says add refuses (panics on) every increment outside 0..2^31-1, as
///   documented, instead of producing a serial that does not compare greater
#[kani::proof]
#[kani::should_panic]
fn add_rejects_large_increment() {
    let s: u32 = kani::any();
    let n: u32 = kani::any();
    kani::assume(n > 0x7FFF_FFFF);
    let _ = Serial(s).add(n);
}

/// @tier quick thorough
/// @fn rpki::rtr::state::Serial::to_be rpki::rtr::state::Serial::from_be
/// @bounds all 2^32 serials
/// @says wire conversion is lossless and big-endian: from_be(to_be(s)) == s
///   and the in-memory bytes of to_be(s) are the big-endian bytes of s
#[kani::proof]
fn wire_conversion_big_endian_lossless() {
    let s: u32 = kani::any();
    let w = Serial(s).to_be();
    kani::cover!(s == 0x0102_0304);
    assert!(Serial::from_be(w) == Serial(s));
    assert_eq!(w.to_ne_bytes(), s.to_be_bytes());
    assert_eq!(Serial::from_be(u32::from_ne_bytes(s.to_be_bytes())).0, s);
    assert_eq!(u32::from(Serial::from(s)), s);
}

/// @tier quick thorough
/// @fn rpki::rtr::state::State::inc rpki::rtr::state::State::serial
///   rpki::rtr::state::State::session rpki::rtr::state::State::from_parts
/// @bounds all sessions and serials
/// @says State::inc advances the serial by exactly one (wrapping) to a
///   strictly greater serial and keeps the session
#[kani::proof]
fn state_inc_advances() {
    let session: u16 = kani::any();
    let s: u32 = kani::any();
    let mut st = State::from_parts(session, Serial(s));
    st.inc();
    kani::cover!(s == u32::MAX);
    assert_eq!(st.session(), session);
    assert_eq!(st.serial().0, s.wrapping_add(1));
    assert_eq!(st.serial().partial_cmp(&Serial(s)), Some(Ordering::Greater));
}

/// @tier quick thorough
/// @fn rpki::rtr::pdu::SerialNotify::new rpki::rtr::pdu::SerialQuery::new
///   rpki::rtr::pdu::SerialQueryPayload::new
///   rpki::rtr::pdu::SerialQueryPayload::serial
/// @bounds all versions, sessions, serials
/// @says serials put into Serial Notify / Serial Query PDUs sit big-endian in
///   bytes 8..12 of the PDU (session in bytes 2..4) and come back unchanged
#[kani::proof]
#[kani::unwind(13)]
fn serial_in_pdus_big_endian() {
    let version: u8 = kani::any();
    let session: u16 = kani::any();
    let s: u32 = kani::any();
    let st = State::from_parts(session, Serial(s));
    let n = pdu::SerialNotify::new(version, st);
    let q = pdu::SerialQuery::new(version, st);
    let p = pdu::SerialQueryPayload::new(Serial(s));
    kani::cover!(s == 0xA1B2_C3D4);
    let sb = s.to_be_bytes();
    let nb = n.as_ref();
    let qb = q.as_ref();
    assert!(nb.len() == 12 && qb.len() == 12);
    assert!(nb[8] == sb[0] && nb[9] == sb[1] && nb[10] == sb[2]
        && nb[11] == sb[3]);
    assert!(qb[8] == sb[0] && qb[9] == sb[1] && qb[10] == sb[2]
        && qb[11] == sb[3]);
    assert!(nb[2] == session.to_be_bytes()[0]
        && nb[3] == session.to_be_bytes()[1]);
    assert!(n.session() == session && q.session() == session);
    assert!(n.version() == version && q.version() == version);
    assert!(p.serial() == Serial(s));
}
