//! C05 — built objects decode back to themselves and look the same either
//! way.  Decided here for the part that needs neither a certificate nor a
//! signature: the *content* values that builders assemble around captured
//! sub-encodings (ROA address lists).  See DESIGN §3 C05.
//! @jobs 6 @mem_gb 10 @quick_timeout 900 @thorough_timeout 3600
use crate::util::*;
use rpki::repository::resources::{Addr, Prefix};
use rpki::repository::roa::{RoaBuilder, RoaIpAddress};
use rpki::resources::asn::Asn;
use std::net::{IpAddr, Ipv4Addr, Ipv6Addr};

fn any_maxlen() -> Option<u8> {
    if kani::any() { Some(kani::any()) } else { None }
}

/// One IPv4 ROA address of a fixed prefix length (the length is a harness
/// parameter so that the number of BIT STRING octets is concrete), arbitrary
/// address bits and arbitrary optional max length.
fn any_v4_addr(len: u8, ml: Option<u8>) -> RoaIpAddress {
    let a: u32 = kani::any();
    RoaIpAddress::new_addr(IpAddr::V4(Ipv4Addr::from(a)), len, ml)
}

fn same(a: RoaIpAddress, b: RoaIpAddress) -> bool {
    a.prefix().addr_len() == b.prefix().addr_len()
        && a.prefix().addr() == b.prefix().addr()
        && a.max_length() == b.max_length()
}

fn built_v4_iter_one(len: u8, ml: Option<u8>) {
    let asn: u32 = kani::any();
    let x = any_v4_addr(len, ml);
    let mut b = RoaBuilder::new(Asn::from_u32(asn));
    b.push_v4(x);
    let att = b.to_attestation();
    assert!(att.as_id().into_u32() == asn);
    assert!(!att.v4_addrs().is_empty() && att.v6_addrs().is_empty());
    let mut it = att.v4_addrs().iter();
    let first = it.next();
    kani::cover!(first.is_some());
    match first {
        Some(y) => assert!(same(x, y)),
        None => panic!("built ROA lost its prefix"),
    }
    assert!(it.next().is_none());
    std::mem::forget(att);
    std::mem::forget(b);
}

/// @tier off
/// @fn rpki::repository::roa::RoaBuilder::to_attestation
///   rpki::repository::roa::RoaIpAddressesBuilder::to_addresses
///   rpki::repository::roa::RoaIpAddresses::iter
///   rpki::repository::roa::RoaIpAddressIter::next
///   rpki::repository::resources::ipres::Prefix::encode
///   rpki::repository::resources::ipres::Prefix::take_from
/// @bounds one IPv4 prefix of length 24 (3 BIT STRING octets) with
///   arbitrary address bits, arbitrary optional max length (any u8),
///   arbitrary AS number; unwind 8
/// @says the address list of a freshly built (not re-decoded) ROA
///   attestation can be iterated without panic and yields exactly the
///   prefix and max length that were pushed, then ends
/// @out more than one prefix per family in this member; signing
#[kani::proof]
#[kani::unwind(8)]
fn roa_built_v4_len24_iterates() { built_v4_iter_one(24, None); }

/// @tier off
/// @says probe: fully concrete
#[kani::proof]
#[kani::unwind(8)]
fn x_roa_built_concrete() {
    let x = RoaIpAddress::new_addr(IpAddr::V4(Ipv4Addr::from(0x0a000000u32)), 24, None);
    let mut b = RoaBuilder::new(Asn::from_u32(64512));
    b.push_v4(x);
    let att = b.to_attestation();
    let mut it = att.v4_addrs().iter();
    let first = it.next();
    assert!(first.is_some());
    std::mem::forget(att);
    std::mem::forget(b);
}
