//! C07 — RTR PDUs survive the wire unchanged; broken streams end in errors,
//! not hangs.
//!
//! The async read/write functions are driven by `util::block_on` (a poll loop
//! with a no-op waker) over in-memory streams: `Vec<u8>` as writer, `&[u8]` /
//! `util::ChunkReader` (solver-chosen fragmentation, EOF at the end) as
//! reader.
//! @jobs 10 @mem_gb 5 @quick_timeout 600 @thorough_timeout 3600
use crate::util::*;
use bytes::Bytes;
use rpki::resources::addr::{MaxLenPrefix, Prefix};
use rpki::resources::asn::Asn;
use rpki::rtr::payload::{self, Action, PayloadRef, RouteOrigin, Timing};
use rpki::rtr::pdu::{self, *};
use rpki::rtr::state::{Serial, State};
use std::net::{Ipv4Addr, Ipv6Addr};

fn any_state() -> State {
    State::from_parts(kani::any(), Serial(kani::any()))
}

/// Length field (bytes 4..8, big endian) of a raw PDU.
fn len_field(b: &[u8]) -> usize {
    be32(b, 4) as usize
}

/// write -> length check -> read back; returns the bytes and the re-read PDU.
macro_rules! fixed_roundtrip {
    ($ty:ty, $pdu:expr, $size:expr) => {{
        let pdu: $ty = $pdu;
        let mut wire: Vec<u8> = Vec::with_capacity(64);
        block_on(pdu.write(&mut wire), 2).unwrap().unwrap();
        assert_eq!(wire.len(), $size);
        assert_eq!(len_field(&wire), wire.len());
        assert_eq!(<$ty>::size() as usize, wire.len());
        let mut rd = ChunkReader::new(&wire, false, 0);
        let back = block_on(<$ty>::read(&mut rd), 2).unwrap().unwrap();
        assert!(rd.consumed() == wire.len());
        assert!(back == pdu);
        (wire, back)
    }};
}

/// @tier quick thorough
/// @fn rpki::rtr::pdu::SerialNotify::new rpki::rtr::pdu::SerialNotify::write
///   rpki::rtr::pdu::SerialNotify::read rpki::rtr::pdu::SerialQuery::new
///   rpki::rtr::pdu::SerialQuery::write rpki::rtr::pdu::SerialQuery::read
///   rpki::rtr::pdu::Header::new
/// @bounds all versions (u8), sessions, serials; the
///   12-byte stream; loop-free harness, unwind 5 covers read_exact/write_all
/// @says Serial Notify and Serial Query written and read back are bit-identical, keep version and
///   session, and their length field equals the 12 bytes written
#[kani::proof]
#[kani::unwind(5)]
fn roundtrip_serial_notify_query() {
    let v: u8 = kani::any();
    let st = any_state();
    let (w, b) = fixed_roundtrip!(SerialNotify, SerialNotify::new(v, st), 12);
    kani::cover!(v == 2);
    assert!(w[0] == v && w[1] == 0);
    assert!(b.version() == v && b.session() == st.session());
    let (w, b) = fixed_roundtrip!(SerialQuery, SerialQuery::new(v, st), 12);
    assert!(w[0] == v && w[1] == 1);
    assert!(b.version() == v && b.session() == st.session());
}

/// @tier quick thorough
/// @fn rpki::rtr::pdu::ResetQuery::new rpki::rtr::pdu::ResetQuery::read
///   rpki::rtr::pdu::CacheResponse::new rpki::rtr::pdu::CacheResponse::read
///   rpki::rtr::pdu::CacheReset::new rpki::rtr::pdu::CacheReset::read
/// @bounds all versions and sessions; the 8-byte
///   stream; loop-free harness, unwind 5 covers read_exact/write_all
/// @says Reset Query, Cache Response and Cache Reset round-trip bit-identical
///   with a length field of 8
#[kani::proof]
#[kani::unwind(5)]
fn roundtrip_header_only_pdus() {
    let v: u8 = kani::any();
    let st = any_state();
    let (w, b) = fixed_roundtrip!(ResetQuery, ResetQuery::new(v), 8);
    assert!(w[0] == v && w[1] == 2 && b.version() == v);
    let (w, b) =
        fixed_roundtrip!(CacheResponse, CacheResponse::new(v, st), 8);
    kani::cover!(st.session() == 0xBEEF);
    assert!(w[0] == v && w[1] == 3);
    assert!(b.version() == v && b.session() == st.session());
    let (w, b) = fixed_roundtrip!(CacheReset, CacheReset::new(v), 8);
    assert!(w[0] == v && w[1] == 8 && b.version() == v);
}

/// @tier quick thorough
/// @fn rpki::rtr::pdu::Ipv4Prefix::new rpki::rtr::pdu::Ipv4Prefix::write
///   rpki::rtr::pdu::Ipv4Prefix::read rpki::rtr::pdu::Ipv4Prefix::prefix
///   rpki::rtr::pdu::Ipv4Prefix::asn
/// @bounds all versions, flags, lengths, addresses, ASNs; every
///   fragmentation of the 20-byte stream; loop-free harness, unwind 5 covers read_exact/write_all
/// @says an IPv4 Prefix PDU round-trips bit-identical, every accessor returns
///   the value it was built from, fields sit at their RFC 8210 offsets in
///   network byte order and the length field is 20
#[kani::proof]
#[kani::unwind(5)]
fn roundtrip_ipv4_prefix() {
    let (v, fl, pl, ml): (u8, u8, u8, u8) = kani::any();
    let a: u32 = kani::any();
    let asn: u32 = kani::any();
    let (w, b) = fixed_roundtrip!(
        Ipv4Prefix,
        Ipv4Prefix::new(v, fl, pl, ml, Ipv4Addr::from(a), Asn::from_u32(asn)),
        20
    );
    kani::cover!(a == 0x0A00_0001 && asn == 0xFFFF_FFFE);
    assert!(w[0] == v && w[1] == 4 && w[8] == fl && w[9] == pl
        && w[10] == ml && w[11] == 0);
    assert!(be32(&w, 12) == a);
    assert!(be32(&w, 16) == asn);
    assert!(b.version() == v && b.flags() == fl && b.prefix_len() == pl
        && b.max_len() == ml);
    assert!(u32::from(b.prefix()) == a && b.asn().into_u32() == asn);
}

/// @tier quick thorough
/// @fn rpki::rtr::pdu::Ipv6Prefix::new rpki::rtr::pdu::Ipv6Prefix::write
///   rpki::rtr::pdu::Ipv6Prefix::read rpki::rtr::pdu::Ipv6Prefix::prefix
///   rpki::rtr::pdu::Ipv6Prefix::asn
/// @bounds all versions, flags, lengths, 128-bit addresses, ASNs; every
///   fragmentation of the 32-byte stream; loop-free harness, unwind 5 covers read_exact/write_all
/// @says an IPv6 Prefix PDU round-trips bit-identical, accessors return the
///   construction values, fields in network byte order, length field 32
#[kani::proof]
#[kani::unwind(5)]
fn roundtrip_ipv6_prefix() {
    let (v, fl, pl, ml): (u8, u8, u8, u8) = kani::any();
    let a: u128 = kani::any();
    let asn: u32 = kani::any();
    let (w, b) = fixed_roundtrip!(
        Ipv6Prefix,
        Ipv6Prefix::new(v, fl, pl, ml, Ipv6Addr::from(a), Asn::from_u32(asn)),
        32
    );
    kani::cover!(a == 0x2001_0db8_0000_0000_0000_0000_0000_0001);
    assert!(w[0] == v && w[1] == 6 && w[8] == fl && w[9] == pl
        && w[10] == ml && w[11] == 0);
    assert!(be128(&w, 12) == a);
    assert!(be32(&w, 28) == asn);
    assert!(b.version() == v && b.flags() == fl && b.prefix_len() == pl
        && b.max_len() == ml);
    assert!(u128::from(b.prefix()) == a && b.asn().into_u32() == asn);
}

fn eod_body(v: u8) {
    let st = any_state();
    let t = Timing { refresh: kani::any(), retry: kani::any(),
                     expire: kani::any() };
    let eod = EndOfData::new(v, st, t);
    let mut wire: Vec<u8> = Vec::with_capacity(32);
    block_on(eod.write(&mut wire), 2).unwrap().unwrap();
    assert_eq!(wire.len(), if v == 0 { 12 } else { 24 });
    assert_eq!(len_field(&wire), wire.len());
    assert!(wire[0] == v && wire[1] == 7);
    assert!(be16(&wire, 2) == st.session());
    assert!(be32(&wire, 8) == st.serial().0);
    if v != 0 {
        assert!(be32(&wire, 12) == t.refresh && be32(&wire, 16) == t.retry
            && be32(&wire, 20) == t.expire);
    }
    assert!(eod.version() == v && eod.state().serial() == st.serial()
        && eod.session() == st.session());
    let mut rd = ChunkReader::new(&wire, false, 0);
    let header = block_on(Header::read(&mut rd), 2).unwrap().unwrap();
    let back = block_on(EndOfData::read_payload(header, &mut rd), 2).unwrap();
    if v <= 2 {
        let back = back.unwrap();
        assert!(rd.consumed() == wire.len());
        assert!(back == eod);
        assert!(back.version() == v);
        assert!(back.state().session() == st.session());
        assert!(back.state().serial() == st.serial());
        match back.timing() {
            None => assert!(v == 0),
            Some(bt) => assert!(v != 0 && bt.refresh == t.refresh
                && bt.retry == t.retry && bt.expire == t.expire),
        }
    } else {
        assert!(back.is_err());
        std::mem::forget(back);
    }
}

/// @tier quick thorough
/// @fn rpki::rtr::pdu::EndOfData::new rpki::rtr::pdu::EndOfData::write
///   rpki::rtr::pdu::EndOfData::read_payload rpki::rtr::pdu::EndOfDataV0::new
///   rpki::rtr::pdu::EndOfData::state rpki::rtr::pdu::EndOfData::timing
///   rpki::rtr::pdu::Header::read
/// @bounds version 0, all states and timing values; unwind 5
/// @says for version 0, End of Data is the 12-byte form without timers, the
///   length field equals the bytes written and it reads back with the same
///   version and state and no timing
#[kani::proof]
#[kani::unwind(5)]
fn roundtrip_end_of_data_v0() {
    kani::cover!(true);
    eod_body(0);
}

/// @tier quick thorough
/// @fn rpki::rtr::pdu::EndOfData::new rpki::rtr::pdu::EndOfData::write
///   rpki::rtr::pdu::EndOfData::read_payload rpki::rtr::pdu::EndOfDataV1::new
///   rpki::rtr::pdu::EndOfDataV1::timing rpki::rtr::pdu::EndOfData::timing
/// @bounds all versions 1..=255, all states and timing values; unwind 5
/// @says from version 1 on, End of Data is the 24-byte form with refresh,
///   retry and expire in network byte order; for versions 1-2 it reads back
///   with the same version, state and timing; for unknown versions (>= 3)
///   reading is refused with an error
#[kani::proof]
#[kani::unwind(5)]
fn roundtrip_end_of_data_v1plus() {
    let v: u8 = kani::any();
    kani::assume(v >= 1);
    kani::cover!(v == 2);
    kani::cover!(v == 3);
    eod_body(v);
}

fn origin_body(want_v4: bool) {
    let (mlp, r, ml) = any_maxlen_prefix();
    kani::assume(r.v4 == want_v4);
    let asn: u32 = kani::any();
    let v: u8 = kani::any();
    let announce: bool = kani::any();
    let action = if announce { Action::Announce } else { Action::Withdraw };
    let origin = RouteOrigin::new(mlp, Asn::from_u32(asn));
    let p = Payload::new_if_supported(v, action.into_flags(),
                                      PayloadRef::Origin(origin));
    let p = p.unwrap();
    let mut wire: Vec<u8> = Vec::with_capacity(32);
    block_on(p.write(&mut wire), 2).unwrap().unwrap();
    kani::cover!(ml.is_none() && announce);
    kani::cover!(ml.is_some() && !announce);
    assert_eq!(wire.len(), if want_v4 { 20 } else { 32 });
    assert_eq!(len_field(&wire), wire.len());
    assert!(wire[0] == v && wire[1] == if want_v4 { 4 } else { 6 });
    let mut rd = ChunkReader::new(&wire, false, 0);
    let back = block_on(Payload::read(&mut rd), 2).unwrap().unwrap();
    let back = match back { Ok(Some(b)) => b, _ => panic!("not a payload") };
    assert!(rd.consumed() == wire.len());
    assert!(back == p);
    assert!(back.version() == v);
    let (act, item) = match back.to_payload() {
        Ok(x) => x, Err(_) => panic!("to_payload refused a valid item") };
    assert!(act == action);
    match item {
        payload::Payload::Origin(o) => {
            assert!(o == origin);
            assert!(o.prefix.prefix() == mlp.prefix());
            assert!(o.prefix.resolved_max_len() == mlp.resolved_max_len());
            assert!(o.asn.into_u32() == asn);
        }
        _ => panic!("wrong payload kind"),
    }
}

/// @tier quick thorough
/// @fn rpki::rtr::pdu::Payload::new rpki::rtr::pdu::Payload::write
///   rpki::rtr::pdu::Payload::read rpki::rtr::pdu::Payload::to_payload
///   rpki::rtr::pdu::Payload::new_if_supported rpki::rtr::pdu::Payload::flags
///   rpki::rtr::pdu::Ipv4Prefix::read_payload
///   rpki::rtr::payload::Action::from_flags rpki::rtr::payload::Action::into_flags
/// @bounds every IPv4 route origin (valid max-length prefix, full-width
///   address, any ASN), both actions, versions 0..=255; unwind 5
/// @says an IPv4 origin with either action, turned into a payload PDU,
///   written, read back and converted, yields the same item and action;
///   origins are supported in every version
#[kani::proof]
#[kani::unwind(5)]
fn payload_origin_v4_survives_wire() { origin_body(true); }

/// @tier quick thorough
/// @fn rpki::rtr::pdu::Payload::new rpki::rtr::pdu::Payload::write
///   rpki::rtr::pdu::Payload::read rpki::rtr::pdu::Payload::to_payload
///   rpki::rtr::pdu::Ipv6Prefix::read_payload
/// @bounds every IPv6 route origin (valid max-length prefix, full-width
///   address, any ASN), both actions, versions 0..=255; unwind 5
/// @says an IPv6 origin with either action survives the wire unchanged
#[kani::proof]
#[kani::unwind(5)]
fn payload_origin_v6_survives_wire() { origin_body(false); }

/// Router key with key info of exactly N bytes (length-indexed family).
fn router_key_body<const N: usize>() {
    let ki: [u8; 20] = kani::any();
    let asn: u32 = kani::any();
    let info: [u8; N] = kani::any();
    let v: u8 = kani::any();
    let announce: bool = kani::any();
    let action = if announce { Action::Announce } else { Action::Withdraw };
    let key = payload::RouterKey::new(
        ki.into(), Asn::from_u32(asn),
        RouterKeyInfo::new(Bytes::copy_from_slice(&info)).unwrap());
    let p = Payload::new_if_supported(v, action.into_flags(),
                                      PayloadRef::RouterKey(&key));
    kani::cover!(v == 0);
    kani::cover!(v == 1 && announce);
    assert_eq!(p.is_some(), v >= 1);
    if let Some(p) = p {
        let mut wire: Vec<u8> = Vec::with_capacity(40);
        block_on(p.write(&mut wire), 3).unwrap().unwrap();
        assert_eq!(wire.len(), 32 + N);
        assert_eq!(len_field(&wire), wire.len());
        assert!(wire[0] == v && wire[1] == 9 && wire[2] == action.into_flags()
            && wire[3] == 0);
        assert!(eq20(&wire, 8, &ki));
        assert!(be32(&wire, 28) == asn);
        let mut rd = ChunkReader::new(&wire, false, 0);
        let back = block_on(Payload::read(&mut rd), 2).unwrap().unwrap();
        let back = match back { Ok(Some(b)) => b, _ => panic!("no payload") };
        assert!(rd.consumed() == wire.len());
        assert!(back.version() == v && back.flags() == action.into_flags());
        let (act, item) = match back.to_payload() {
            Ok(x) => x, Err(_) => panic!("to_payload refused") };
        assert!(act == action);
        match &item {
            payload::Payload::RouterKey(k) => {
                assert!(k.asn.into_u32() == asn);
                assert!(eq20(k.key_identifier.as_slice(), 0, &ki));
                let got = k.key_info.as_slice();
                assert!(got.len() == N);
                if N >= 1 { assert!(got[0] == info[0]); }
                if N >= 2 { assert!(got[1] == info[1]); }
                if N >= 3 { assert!(got[2] == info[2]); }
                if N >= 4 { assert!(got[N - 1] == info[N - 1]); }
                if N >= 8 { assert!(be32(got, 3) == be32(&info, 3)); }
            }
            _ => panic!("wrong payload kind"),
        }
        std::mem::forget(item);
        std::mem::forget(back);
        std::mem::forget(wire);
        std::mem::forget(p);
    }
    std::mem::forget(key);
}

/// @tier quick thorough
/// @fn rpki::rtr::pdu::RouterKey::new rpki::rtr::pdu::RouterKey::write
///   rpki::rtr::pdu::RouterKey::read_payload rpki::rtr::pdu::RouterKeyInfo::new
///   rpki::rtr::pdu::RouterKeyInfo::read rpki::rtr::pdu::Payload::read
///   rpki::rtr::pdu::Payload::to_payload rpki::rtr::pdu::Payload::new_if_supported
/// @bounds length-indexed family, member for an empty key info; every key
///   identifier, ASN, both actions, all versions; unwind 5
/// @says a router key item survives the wire with its action; the length
///   field equals 32 + key info length = bytes written; router keys are
///   produced only for versions >= 1
#[kani::proof]
#[kani::unwind(5)]
fn payload_router_key_len0() { router_key_body::<0>(); }

/// @tier quick thorough
/// @fn rpki::rtr::pdu::RouterKey::new rpki::rtr::pdu::RouterKey::write
///   rpki::rtr::pdu::RouterKey::read_payload rpki::rtr::pdu::RouterKeyInfo::read
/// @bounds length-indexed family, member for 1 arbitrary key info byte
/// @says a router key item survives the wire (see payload_router_key_len0)
#[kani::proof]
#[kani::unwind(5)]
fn payload_router_key_len1() { router_key_body::<1>(); }

/// @tier quick thorough
/// @fn rpki::rtr::pdu::RouterKey::new rpki::rtr::pdu::RouterKey::write
///   rpki::rtr::pdu::RouterKey::read_payload rpki::rtr::pdu::RouterKeyInfo::read
/// @bounds length-indexed family, member for 4 arbitrary key info bytes
/// @says a router key item survives the wire (see payload_router_key_len0)
/// @out key info lengths other than 0, 1, 4 (quick) / 0, 1, 2, 3, 4, 8, 91
///   (thorough); the code treats the key info as an opaque run of bytes
#[kani::proof]
#[kani::unwind(5)]
fn payload_router_key_len4() { router_key_body::<4>(); }

/// @tier thorough
/// @fn rpki::rtr::pdu::RouterKey::new rpki::rtr::pdu::RouterKey::read_payload
/// @bounds length-indexed family, member for 2 key info bytes
/// @says a router key item survives the wire (see payload_router_key_len0)
#[kani::proof]
#[kani::unwind(5)]
fn payload_router_key_len2_t() { router_key_body::<2>(); }

/// @tier thorough
/// @fn rpki::rtr::pdu::RouterKey::new rpki::rtr::pdu::RouterKey::read_payload
/// @bounds length-indexed family, member for 3 key info bytes
/// @says a router key item survives the wire (see payload_router_key_len0)
#[kani::proof]
#[kani::unwind(5)]
fn payload_router_key_len3_t() { router_key_body::<3>(); }

/// @tier thorough
/// @fn rpki::rtr::pdu::RouterKey::new rpki::rtr::pdu::RouterKey::read_payload
/// @bounds length-indexed family, member for 8 key info bytes
/// @says a router key item survives the wire (see payload_router_key_len0)
#[kani::proof]
#[kani::unwind(5)]
fn payload_router_key_len8_t() { router_key_body::<8>(); }

/// @tier thorough
/// @fn rpki::rtr::pdu::RouterKey::new rpki::rtr::pdu::RouterKey::read_payload
/// @bounds length-indexed family, member for 91 key info bytes (the size of
///   a P-256 SubjectPublicKeyInfo, the only key type BGPsec uses)
/// @says a router key item survives the wire (see payload_router_key_len0)
#[kani::proof]
#[kani::unwind(5)]
fn payload_router_key_len91_t() { router_key_body::<91>(); }

/// ASPA with exactly N providers (length-indexed family).
fn aspa_body<const N: usize>() {
    let customer: u32 = kani::any();
    let prov: [u32; N] = kani::any();
    let v: u8 = kani::any();
    let announce: bool = kani::any();
    let action = if announce { Action::Announce } else { Action::Withdraw };
    let providers = ProviderAsns::try_from_iter(
        prov.iter().map(|p| Asn::from_u32(*p))).unwrap();
    assert!(providers.asn_count() as usize == N && providers.len() == 4 * N);
    let aspa = payload::Aspa::new(Asn::from_u32(customer), providers);
    let p = Payload::new_if_supported(v, action.into_flags(),
                                      PayloadRef::Aspa(&aspa));
    kani::cover!(v == 1);
    kani::cover!(v == 2 && announce);
    kani::cover!(v == 2 && !announce);
    assert_eq!(p.is_some(), v >= 2);
    if let Some(p) = p {
        let mut wire: Vec<u8> = Vec::with_capacity(32);
        block_on(p.write(&mut wire), 3).unwrap().unwrap();
        assert_eq!(wire.len(), 12 + 4 * N);
        assert_eq!(len_field(&wire), wire.len());
        assert!(wire[0] == v && wire[1] == 11
            && wire[2] == action.into_flags() && wire[3] == 0);
        assert!(be32(&wire, 8) == customer);
        if N >= 1 { assert!(be32(&wire, 12) == prov[0]); }
        if N >= 2 { assert!(be32(&wire, 8 + 4 * N) == prov[N - 1]); }
        let mut rd = ChunkReader::new(&wire, false, 0);
        let back = block_on(Payload::read(&mut rd), 2).unwrap().unwrap();
        let back = match back { Ok(Some(b)) => b, _ => panic!("no payload") };
        assert!(rd.consumed() == wire.len());
        assert!(back.version() == v);
        let (act, item) = match back.to_payload() {
            Ok(x) => x, Err(_) => panic!("to_payload refused") };
        assert!(act == action);
        match &item {
            payload::Payload::Aspa(a) => {
                assert!(a.customer.into_u32() == customer);
                assert!(a.key().into_u32() == customer);
                if announce {
                    assert!(a.providers.asn_count() as usize == N);
                    let mut it = a.providers.iter();
                    if N >= 1 {
                        assert!(it.next().unwrap().into_u32() == prov[0]);
                    }
                    if N >= 2 {
                        assert!(it.next().unwrap().into_u32() == prov[1]);
                    }
                    if N >= 3 {
                        assert!(it.next().unwrap().into_u32() == prov[2]);
                    }
                    if N <= 3 {
                        assert!(it.next().is_none());
                    }
                } else {
                    assert!(a.providers.is_empty());
                }
            }
            _ => panic!("wrong payload kind"),
        }
        std::mem::forget(item);
        std::mem::forget(back);
        std::mem::forget(wire);
        std::mem::forget(p);
    }
    std::mem::forget(aspa);
}

/// @tier quick thorough
/// @fn rpki::rtr::pdu::Aspa::new rpki::rtr::pdu::Aspa::write
///   rpki::rtr::pdu::Aspa::read_payload rpki::rtr::pdu::ProviderAsns::try_from_iter
///   rpki::rtr::pdu::ProviderAsns::read rpki::rtr::pdu::ProviderAsns::iter
///   rpki::rtr::pdu::ProviderAsns::asn_count rpki::rtr::pdu::Payload::to_payload
///   rpki::rtr::pdu::Payload::new_if_supported
/// @bounds length-indexed family, member for 0 providers; any customer ASN,
///   both actions, all versions; unwind 6
/// @says an ASPA item survives the wire: announcements with customer and the
///   same provider sequence, withdrawals identified by customer (providers
///   are dropped by design); length field = 12 + 4*providers = bytes
///   written; ASPA PDUs are produced only for versions >= 2
#[kani::proof]
#[kani::unwind(6)]
fn payload_aspa_0_providers() { aspa_body::<0>(); }

/// @tier quick thorough
/// @fn rpki::rtr::pdu::Aspa::new rpki::rtr::pdu::Aspa::write
///   rpki::rtr::pdu::Aspa::read_payload rpki::rtr::pdu::ProviderAsns::try_from_iter
/// @bounds length-indexed family, member for 1 arbitrary provider ASN
/// @says an ASPA item survives the wire (see payload_aspa_0_providers)
#[kani::proof]
#[kani::unwind(6)]
fn payload_aspa_1_provider() { aspa_body::<1>(); }

/// @tier quick thorough
/// @fn rpki::rtr::pdu::Aspa::new rpki::rtr::pdu::Aspa::write
///   rpki::rtr::pdu::Aspa::read_payload rpki::rtr::pdu::ProviderAsns::try_from_iter
/// @bounds length-indexed family, member for 2 arbitrary provider ASNs
/// @says an ASPA item survives the wire (see payload_aspa_0_providers)
/// @out more than 2 (quick) / 3 (thorough) providers
#[kani::proof]
#[kani::unwind(6)]
fn payload_aspa_2_providers() { aspa_body::<2>(); }

/// @tier thorough
/// @fn rpki::rtr::pdu::Aspa::new rpki::rtr::pdu::Aspa::read_payload
/// @bounds length-indexed family, member for 3 arbitrary provider ASNs
/// @says an ASPA item survives the wire (see payload_aspa_0_providers)
#[kani::proof]
#[kani::unwind(7)]
fn payload_aspa_3_providers_t() { aspa_body::<3>(); }

fn to_payload_body(v4: bool) {
    let (v, fl, pl, ml): (u8, u8, u8, u8) = kani::any();
    let asn: u32 = kani::any();
    let a: u128 = kani::any();
    let p = if v4 {
        Payload::V4(Ipv4Prefix::new(v, fl, pl, ml, Ipv4Addr::from(a as u32),
                                    Asn::from_u32(asn)))
    } else {
        Payload::V6(Ipv6Prefix::new(v, fl, pl, ml, Ipv6Addr::from(a),
                                    Asn::from_u32(asn)))
    };
    let fam_max = if v4 { 32 } else { 128 };
    let expect_ok = pl <= ml && ml <= fam_max;
    let res = p.to_payload();
    kani::cover!(res.is_ok() && pl == fam_max);
    kani::cover!(res.is_err() && pl <= fam_max);
    kani::cover!(res.is_err() && pl > fam_max);
    assert_eq!(res.is_ok(), expect_ok);
    match res {
        Ok((act, item)) => {
            assert!(act.is_announce() == (fl & 1 == 1));
            let o = item.to_origin().unwrap();
            assert!(o.asn.into_u32() == asn);
            assert!(o.prefix.prefix_len() == pl);
            assert!(o.prefix.max_len() == Some(ml));
            assert!(o.is_v4() == v4);
            // the relaxed constructors themselves are decided in C13
            let want = if v4 {
                Prefix::new_v4_relaxed(Ipv4Addr::from(a as u32), pl)
            } else {
                Prefix::new_v6_relaxed(Ipv6Addr::from(a), pl)
            };
            assert!(o.prefix.prefix() == want.unwrap());
        }
        Err(e) => {
            let b = e.as_ref();
            assert!(b[0] == v && b[1] == 10);
            assert!(len_field(b) == b.len());
            std::mem::forget(e);
        }
    }
}

/// @tier quick thorough
/// @fn rpki::rtr::pdu::Payload::to_payload rpki::rtr::pdu::Error::new
/// @bounds every IPv4 Prefix PDU (all field values, valid or not); unwind 5
/// @says converting a received IPv4 prefix PDU succeeds exactly when
///   prefix length <= max length <= 32; on success the origin carries the
///   prefix with host bits cleared, the max length, the ASN and the action
///   given by the lowest flag bit; otherwise an Error PDU results (no panic)
#[kani::proof]
#[kani::unwind(5)]
fn to_payload_validates_v4() { to_payload_body(true); }

/// @tier quick thorough
/// @fn rpki::rtr::pdu::Payload::to_payload rpki::rtr::pdu::Error::new
/// @bounds every IPv6 Prefix PDU (all field values, valid or not); unwind 5
/// @says converting a received IPv6 prefix PDU succeeds exactly when
///   prefix length <= max length <= 128, with the same result fields
#[kani::proof]
#[kani::unwind(5)]
fn to_payload_validates_v6() { to_payload_body(false); }

//------------ broken streams --------------------------------------------------

/// @tier quick thorough
/// @fn rpki::rtr::pdu::Error::skip_payload rpki::rtr::pdu::Header::pdu_len
/// @bounds arbitrary 8-byte header (any length field), arbitrary stream of
///   0..=16 further bytes, then closed; unwind 8
/// @says skipping the body of an Error PDU terminates: it returns Ok after
///   consuming exactly length-8 bytes when the stream has them, and an error
///   when the stream ends early or the length is below 8; it never keeps
///   reading a closed stream (no more than 3 reads after EOF) and never
///   consumes more than the header announces
/// @out streams longer than 16 bytes after the header
#[kani::proof]
#[kani::unwind(8)]
fn error_skip_payload_terminates() {
    let hdr: [u8; 8] = kani::any();
    let body: [u8; 16] = kani::any();
    let n: usize = kani::any();
    kani::assume(n <= 16);
    let mut hr: &[u8] = &hdr;
    let header = block_on(Header::read(&mut hr), 2).unwrap().unwrap();
    let announced = len_field(&hdr);
    let mut rd = ChunkReader::new(&body[..n], false, 0);
    let res = block_on(pdu::Error::skip_payload(header, &mut rd), 2);
    kani::cover!(announced >= 8 && announced - 8 > n);
    kani::cover!(announced >= 8 && announced - 8 <= n && announced > 8);
    kani::cover!(announced < 8);
    let res = res.unwrap();
    if announced < 8 {
        assert!(res.is_err());
        assert!(rd.consumed() == 0);
    } else if announced - 8 <= n {
        assert!(res.is_ok());
        assert!(rd.consumed() == announced - 8);
    } else {
        assert!(res.is_err());
    }
    std::mem::forget(res);
}

/// Reads one payload PDU of a fixed type from an arbitrary stream of at most
/// M bytes that is closed after a solver-chosen number of bytes.
fn broken_stream_body<const M: usize>(ty: u8) {
    let mut data: [u8; M] = kani::any();
    data[1] = ty;
    let n: usize = kani::any();
    kani::assume(n <= M);
    let announced = len_field(&data);
    kani::assume(announced <= 64);
    let ver = data[0];
    let mut rd = ChunkReader::new(&data[..n], false, 0);
    let res = block_on(Payload::read(&mut rd), 2).unwrap();
    kani::cover!(res.is_ok());
    kani::cover!(res.is_err() && n >= 8 && announced > n);
    kani::cover!(res.is_err() && n < 8);
    let limit = if announced > 8 { announced } else { 8 };
    assert!(rd.consumed() <= limit);
    let len_ok = match ty {
        4 => announced == 20,
        6 => announced == 32,
        9 => announced >= 32,
        11 => announced >= 12 && (announced - 12) % 4 == 0,
        7 => (ver == 0 && announced == 12)
            || ((ver == 1 || ver == 2) && announced == 24),
        _ => false,
    };
    if n < 8 || n < announced || !len_ok {
        assert!(res.is_err());
    } else {
        assert!(res.is_ok());
        assert!(rd.consumed() == announced);
    }
    std::mem::forget(res);
}

/// @tier quick thorough
/// @fn rpki::rtr::pdu::Payload::read rpki::rtr::pdu::Header::read
///   rpki::rtr::pdu::Ipv4Prefix::read_payload
/// @bounds PDU type 4; arbitrary other header fields and body; stream of
///   0..=24 bytes closed at an arbitrary point; length field assumed <= 64;
///   unwind 6
/// @says reading an IPv4 Prefix PDU from a truncated or corrupt stream
///   terminates without panic: error if the stream is shorter than 8 bytes
///   or than the 20 bytes required or the length field is not 20, success
///   otherwise; never more than max(announced length, 8) bytes consumed and
///   no spinning on the closed stream
/// @assume header length field <= 64
#[kani::proof]
#[kani::unwind(6)]
fn broken_stream_ipv4_prefix() { broken_stream_body::<24>(4); }

/// @tier quick thorough
/// @fn rpki::rtr::pdu::Payload::read rpki::rtr::pdu::Ipv6Prefix::read_payload
/// @bounds PDU type 6; stream of 0..=36 bytes closed at an arbitrary point;
///   length field assumed <= 64; unwind 6
/// @says as broken_stream_ipv4_prefix for IPv6 Prefix PDUs (32 bytes)
/// @assume header length field <= 64
#[kani::proof]
#[kani::unwind(6)]
fn broken_stream_ipv6_prefix() { broken_stream_body::<36>(6); }

/// @tier quick thorough
/// @fn rpki::rtr::pdu::Payload::read rpki::rtr::pdu::RouterKey::read_payload
///   rpki::rtr::pdu::RouterKeyInfo::read
/// @bounds PDU type 9; stream of 0..=40 bytes closed at an arbitrary point;
///   length field assumed <= 64; unwind 6
/// @says reading a Router Key PDU from a truncated/corrupt stream: error if
///   the length field is below 32 or the stream shorter than announced,
///   success otherwise with exactly the announced bytes consumed
/// @assume header length field <= 64
/// @out the up-to-4-GiB buffer a hostile Router Key / ASPA header can make
///   the reader allocate (memory is not part of the statement checked here)
#[kani::proof]
#[kani::unwind(6)]
fn broken_stream_router_key() { broken_stream_body::<40>(9); }

/// @tier quick thorough
/// @fn rpki::rtr::pdu::Payload::read rpki::rtr::pdu::Aspa::read_payload
///   rpki::rtr::pdu::ProviderAsns::read
/// @bounds PDU type 11; stream of 0..=24 bytes closed at an arbitrary point;
///   length field assumed <= 64; unwind 6
/// @says reading an ASPA PDU from a truncated/corrupt stream: error if the
///   length field is below 12 or not 12 + 4k or the stream is shorter than
///   announced, success otherwise
/// @assume header length field <= 64
#[kani::proof]
#[kani::unwind(6)]
fn broken_stream_aspa() { broken_stream_body::<24>(11); }

/// @tier quick thorough
/// @fn rpki::rtr::pdu::Payload::read rpki::rtr::pdu::EndOfData::read_payload
///   rpki::rtr::pdu::EndOfDataV0::read_payload rpki::rtr::pdu::EndOfDataV1::read_payload
/// @bounds PDU type 7; any version byte; stream of 0..=28 bytes closed at an
///   arbitrary point; length field assumed <= 64; unwind 6
/// @says reading an End of Data PDU from a truncated/corrupt stream: success
///   exactly for version 0 with length 12 or version 1/2 with length 24 and
///   a complete stream; error for any other version, length or truncation
/// @assume header length field <= 64
#[kani::proof]
#[kani::unwind(6)]
fn broken_stream_end_of_data() { broken_stream_body::<28>(7); }

/// @tier quick thorough
/// @fn rpki::rtr::pdu::Payload::read
/// @bounds arbitrary 12-byte stream whose type byte is none of 4, 6, 7, 9, 11
/// @says a PDU type that is not a payload or End of Data type is rejected
///   with an error after reading only the 8-byte header
#[kani::proof]
#[kani::unwind(6)]
fn broken_stream_other_type() {
    let data: [u8; 12] = kani::any();
    let ty = data[1];
    kani::assume(ty != 4 && ty != 6 && ty != 7 && ty != 9 && ty != 11);
    let mut rd = ChunkReader::new(&data, false, 0);
    let res = block_on(Payload::read(&mut rd), 2).unwrap();
    kani::cover!(ty == 10);
    assert!(res.is_err());
    assert!(rd.consumed() == 8);
    std::mem::forget(res);
}

/// @tier quick thorough
/// @fn rpki::rtr::pdu::SerialQuery::read
/// @bounds arbitrary stream of 0..=14 bytes closed at an arbitrary point
/// @says SerialQuery::read accepts exactly a complete 12-byte PDU of type 1
///   with length field 12; anything else is an error after at most 12 bytes
#[kani::proof]
#[kani::unwind(6)]
fn fixed_reader_serial_query() {
    let data: [u8; 14] = kani::any();
    let n: usize = kani::any();
    kani::assume(n <= 14);
    let announced = len_field(&data);
    let ty = data[1];
    let mut rd = ChunkReader::new(&data[..n], false, 0);
    let res = block_on(SerialQuery::read(&mut rd), 2).unwrap();
    kani::cover!(res.is_ok());
    kani::cover!(res.is_err() && ty == 1 && announced == 12);
    assert_eq!(res.is_ok(), n >= 12 && ty == 1 && announced == 12);
    assert!(rd.consumed() <= 12);
    if res.is_ok() {
        assert!(rd.consumed() == 12);
    }
    std::mem::forget(res);
}

/// @tier quick thorough
/// @fn rpki::rtr::pdu::ResetQuery::read rpki::rtr::pdu::CacheResponse::try_read
/// @bounds arbitrary stream of 0..=10 bytes closed at an arbitrary point
/// @says ResetQuery::read accepts exactly a complete 8-byte PDU of type 2 and
///   length 8; CacheResponse::try_read yields the PDU for type 3/length 8,
///   the header for an Error PDU (type 10), an error otherwise; at most 8
///   bytes consumed
#[kani::proof]
#[kani::unwind(6)]
fn fixed_reader_reset_query_cache_response() {
    let data: [u8; 10] = kani::any();
    let n: usize = kani::any();
    kani::assume(n <= 10);
    let announced = len_field(&data);
    let ty = data[1];
    let mut rd = ChunkReader::new(&data[..n], false, 0);
    let res = block_on(ResetQuery::read(&mut rd), 2).unwrap();
    kani::cover!(res.is_ok());
    assert_eq!(res.is_ok(), n >= 8 && ty == 2 && announced == 8);
    assert!(rd.consumed() <= 8);
    std::mem::forget(res);
    let mut rd = ChunkReader::new(&data[..n], false, 0);
    let res = block_on(CacheResponse::try_read(&mut rd), 2).unwrap();
    kani::cover!(matches!(res, Ok(Err(_))));
    match &res {
        Ok(Ok(_)) => assert!(n >= 8 && ty == 3 && announced == 8),
        Ok(Err(h)) => assert!(n >= 8 && ty == 10 && h.pdu() == 10),
        Err(_) => assert!(n < 8 || (ty != 10 && (ty != 3 || announced != 8))),
    }
    assert!(rd.consumed() <= 8);
    std::mem::forget(res);
}

/// Error PDU with embedded PDU of exactly NP and text of exactly NT bytes.
fn error_layout_body<const NP: usize, const NT: usize>() {
    let v: u8 = kani::any();
    let code: u16 = kani::any();
    let pdu_b: [u8; NP] = kani::any();
    let txt_b: [u8; NT] = kani::any();
    let e = pdu::Error::new(v, code, &pdu_b, &txt_b);
    let mut wire: Vec<u8> = Vec::with_capacity(32);
    block_on(e.write(&mut wire), 2).unwrap().unwrap();
    kani::cover!(code == 0x0102);
    assert_eq!(wire.len(), 16 + NP + NT);
    assert_eq!(len_field(&wire), wire.len());
    assert!(wire[0] == v && wire[1] == 10);
    assert!(be16(&wire, 2) == code);
    assert!(be32(&wire, 8) as usize == NP);
    if NP >= 1 { assert!(wire[12] == pdu_b[0]); }
    if NP >= 2 { assert!(wire[12 + NP - 1] == pdu_b[NP - 1]); }
    assert!(be32(&wire, 12 + NP) as usize == NT);
    if NT >= 1 { assert!(wire[16 + NP] == txt_b[0]); }
    if NT >= 2 { assert!(wire[16 + NP + NT - 1] == txt_b[NT - 1]); }
    std::mem::forget(e);
    std::mem::forget(wire);
}

/// @tier quick thorough
/// @fn rpki::rtr::pdu::Error::new rpki::rtr::pdu::Error::write
/// @bounds any version and error code; size-indexed members (embedded PDU,
///   text) = (0,0), (8,0), (0,5), (12,7); unwind 5
/// @says an Error PDU is laid out as header(code in the session field,
///   total length) | pdu length | pdu | text length | text, and the length
///   field equals the number of bytes written
/// @out other (pdu, text) sizes; the layout code is the same straight-line
///   sequence of appends for every size
#[kani::proof]
#[kani::unwind(5)]
fn error_pdu_layout() {
    error_layout_body::<0, 0>();
    error_layout_body::<8, 0>();
    error_layout_body::<0, 5>();
    error_layout_body::<12, 7>();
}
