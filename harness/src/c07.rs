//! C07 — RTR PDUs survive the wire unchanged; broken streams end in errors,
//! not hangs.
//!
//! The async read/write functions are driven by `util::block_on` (a poll loop
//! with a no-op waker) over in-memory streams: `Vec<u8>` as writer, `&[u8]` /
//! `util::ChunkReader` (solver-chosen fragmentation, EOF at the end) as
//! reader.
//! @jobs 8 @mem_gb 7 @quick_timeout 600 @thorough_timeout 3600
use crate::util::*;
use bytes::Bytes;
use rpki::resources::addr::{MaxLenPrefix, Prefix};
use rpki::resources::asn::Asn;
use rpki::rtr::payload::{self, Action, PayloadRef, RouteOrigin, Timing};
use rpki::rtr::pdu::{self, *};
use rpki::rtr::state::{Serial, State};
use std::net::{Ipv4Addr, Ipv6Addr};

fn any_state() -> State {
    State::from_parts(kani::any(), Serial(kani::any()))
}

/// Length field (bytes 4..8, big endian) of a raw PDU.
fn len_field(b: &[u8]) -> usize {
    be32(b, 4) as usize
}

/// write -> length check -> read back; returns the bytes and the re-read PDU.
macro_rules! fixed_roundtrip {
    ($ty:ty, $pdu:expr, $size:expr) => {{
        let pdu: $ty = $pdu;
        let mut wire: Vec<u8> = Vec::with_capacity(64);
        block_on(pdu.write(&mut wire), 2).unwrap().unwrap();
        assert_eq!(wire.len(), $size);
        assert_eq!(len_field(&wire), wire.len());
        assert_eq!(<$ty>::size() as usize, wire.len());
        let mut rd = ChunkReader::new(&wire, false, 0);
        let back = block_on(<$ty>::read(&mut rd), 2).unwrap().unwrap();
        assert!(rd.consumed() == wire.len());
        assert!(back == pdu);
        (wire, back)
    }};
}

/// @tier quick thorough
/// @fn rpki::rtr::pdu::SerialNotify::new rpki::rtr::pdu::SerialNotify::write
///   rpki::rtr::pdu::SerialNotify::read rpki::rtr::pdu::SerialQuery::new
///   rpki::rtr::pdu::SerialQuery::write rpki::rtr::pdu::SerialQuery::read
///   rpki::rtr::pdu::Header::new
/// @bounds all versions (u8), sessions, serials; the
///   12-byte stream; loop-free harness, unwind 5 covers read_exact/write_all
/// @says Serial Notify and Serial Query written and read back are bit-identical, keep version and
///   session, and their length field equals the 12 bytes written
#[kani::proof]
#[kani::unwind(5)]
fn roundtrip_serial_notify_query() {
    let v: u8 = kani::any();
    let st = any_state();
    let (w, b) = fixed_roundtrip!(SerialNotify, SerialNotify::new(v, st), 12);
    kani::cover!(v == 2);
    assert!(w[0] == v && w[1] == 0);
    assert!(b.version() == v && b.session() == st.session());
    let (w, b) = fixed_roundtrip!(SerialQuery, SerialQuery::new(v, st), 12);
    assert!(w[0] == v && w[1] == 1);
    assert!(b.version() == v && b.session() == st.session());
}

/// @tier quick thorough
/// @fn rpki::rtr::pdu::ResetQuery::new rpki::rtr::pdu::ResetQuery::read
///   rpki::rtr::pdu::CacheResponse::new rpki::rtr::pdu::CacheResponse::read
///   rpki::rtr::pdu::CacheReset::new rpki::rtr::pdu::CacheReset::read
/// @bounds all versions and sessions; the 8-byte
///   stream; loop-free harness, unwind 5 covers read_exact/write_all
/// @says Reset Query, Cache Response and Cache Reset round-trip bit-identical
///   with a length field of 8
#[kani::proof]
#[kani::unwind(5)]
fn roundtrip_header_only_pdus() {
    let v: u8 = kani::any();
    let st = any_state();
    let (w, b) = fixed_roundtrip!(ResetQuery, ResetQuery::new(v), 8);
    assert!(w[0] == v && w[1] == 2 && b.version() == v);
    let (w, b) =
        fixed_roundtrip!(CacheResponse, CacheResponse::new(v, st), 8);
    kani::cover!(st.session() == 0xBEEF);
    assert!(w[0] == v && w[1] == 3);
    assert!(b.version() == v && b.session() == st.session());
    let (w, b) = fixed_roundtrip!(CacheReset, CacheReset::new(v), 8);
    assert!(w[0] == v && w[1] == 8 && b.version() == v);
}

/// @tier quick thorough
/// @fn rpki::rtr::pdu::Ipv4Prefix::new rpki::rtr::pdu::Ipv4Prefix::write
///   rpki::rtr::pdu::Ipv4Prefix::read rpki::rtr::pdu::Ipv4Prefix::prefix
///   rpki::rtr::pdu::Ipv4Prefix::asn
/// @bounds all versions, flags, lengths, addresses, ASNs; every
///   fragmentation of the 20-byte stream; loop-free harness, unwind 5 covers read_exact/write_all
/// @says an IPv4 Prefix PDU round-trips bit-identical, every accessor returns
///   the value it was built from, fields sit at their RFC 8210 offsets in
///   network byte order and the length field is 20
#[kani::proof]
#[kani::unwind(5)]
fn roundtrip_ipv4_prefix() {
    let (v, fl, pl, ml): (u8, u8, u8, u8) = kani::any();
    let a: u32 = kani::any();
    let asn: u32 = kani::any();
    let (w, b) = fixed_roundtrip!(
        Ipv4Prefix,
        Ipv4Prefix::new(v, fl, pl, ml, Ipv4Addr::from(a), Asn::from_u32(asn)),
        20
    );
    kani::cover!(a == 0x0A00_0001 && asn == 0xFFFF_FFFE);
    assert!(w[0] == v && w[1] == 4 && w[8] == fl && w[9] == pl
        && w[10] == ml && w[11] == 0);
    assert!(be32(&w, 12) == a);
    assert!(be32(&w, 16) == asn);
    assert!(b.version() == v && b.flags() == fl && b.prefix_len() == pl
        && b.max_len() == ml);
    assert!(u32::from(b.prefix()) == a && b.asn().into_u32() == asn);
}

/// @tier quick thorough
/// @fn rpki::rtr::pdu::Ipv6Prefix::new rpki::rtr::pdu::Ipv6Prefix::write
///   rpki::rtr::pdu::Ipv6Prefix::read rpki::rtr::pdu::Ipv6Prefix::prefix
///   rpki::rtr::pdu::Ipv6Prefix::asn
/// @bounds all versions, flags, lengths, 128-bit addresses, ASNs; every
///   fragmentation of the 32-byte stream; loop-free harness, unwind 5 covers read_exact/write_all
/// @says an IPv6 Prefix PDU round-trips bit-identical, accessors return the
///   construction values, fields in network byte order, length field 32
#[kani::proof]
#[kani::unwind(5)]
fn roundtrip_ipv6_prefix() {
    let (v, fl, pl, ml): (u8, u8, u8, u8) = kani::any();
    let a: u128 = kani::any();
    let asn: u32 = kani::any();
    let (w, b) = fixed_roundtrip!(
        Ipv6Prefix,
        Ipv6Prefix::new(v, fl, pl, ml, Ipv6Addr::from(a), Asn::from_u32(asn)),
        32
    );
    kani::cover!(a == 0x2001_0db8_0000_0000_0000_0000_0000_0001);
    assert!(w[0] == v && w[1] == 6 && w[8] == fl && w[9] == pl
        && w[10] == ml && w[11] == 0);
    assert!(be128(&w, 12) == a);
    assert!(be32(&w, 28) == asn);
    assert!(b.version() == v && b.flags() == fl && b.prefix_len() == pl
        && b.max_len() == ml);
    assert!(u128::from(b.prefix()) == a && b.asn().into_u32() == asn);
}

/// @tier quick thorough
/// @fn rpki::rtr::pdu::EndOfDataV0::new rpki::rtr::pdu::EndOfDataV0::write
///   rpki::rtr::pdu::EndOfDataV0::read rpki::rtr::pdu::EndOfDataV0::serial
///   rpki::rtr::pdu::EndOfDataV1::new rpki::rtr::pdu::EndOfDataV1::write
///   rpki::rtr::pdu::EndOfDataV1::read rpki::rtr::pdu::EndOfDataV1::timing
/// @bounds all states, timing values, versions (for the v1 form); unwind 5
/// @says both End of Data forms round-trip bit-identical: the 12-byte
///   version-0 form with session and serial, the 24-byte form with the three
///   timers in network byte order; length fields 12 / 24 = bytes written
#[kani::proof]
#[kani::unwind(5)]
fn roundtrip_end_of_data_forms() {
    let st = any_state();
    let t = Timing { refresh: kani::any(), retry: kani::any(),
                     expire: kani::any() };
    let v: u8 = kani::any();
    let (w, b) = fixed_roundtrip!(EndOfDataV0, EndOfDataV0::new(st), 12);
    kani::cover!(st.session() == 7);
    assert!(w[0] == 0 && w[1] == 7);
    assert!(be16(&w, 2) == st.session() && be32(&w, 8) == st.serial().0);
    assert!(b.serial() == st.serial() && b.session() == st.session());
    let (w, b) =
        fixed_roundtrip!(EndOfDataV1, EndOfDataV1::new(v, st, t), 24);
    assert!(w[0] == v && w[1] == 7);
    assert!(be16(&w, 2) == st.session() && be32(&w, 8) == st.serial().0);
    assert!(be32(&w, 12) == t.refresh && be32(&w, 16) == t.retry
        && be32(&w, 20) == t.expire);
    assert!(b.serial() == st.serial() && b.session() == st.session()
        && b.version() == v);
    let bt = b.timing();
    assert!(bt.refresh == t.refresh && bt.retry == t.retry
        && bt.expire == t.expire);
}

/// @tier quick thorough
/// @fn rpki::rtr::pdu::EndOfData::new rpki::rtr::pdu::EndOfData::version
///   rpki::rtr::pdu::EndOfData::session rpki::rtr::pdu::EndOfData::serial
///   rpki::rtr::pdu::EndOfData::state rpki::rtr::pdu::EndOfData::timing
///   rpki::rtr::pdu::EndOfData::as_ref
/// @bounds all versions 0..=255, states and timing values; loop-free
/// @says End of Data is the version-0 form exactly for version 0 and the
///   timer-carrying form otherwise; version, state and timing accessors
///   return what it was built from (timing only from version 1 on) and the
///   wire image has 12 resp. 24 bytes
#[kani::proof]
#[kani::unwind(5)]
fn end_of_data_version_split() {
    let v: u8 = kani::any();
    let st = any_state();
    let t = Timing { refresh: kani::any(), retry: kani::any(),
                     expire: kani::any() };
    let eod = EndOfData::new(v, st, t);
    kani::cover!(v == 0);
    kani::cover!(v == 2);
    assert_eq!(matches!(eod, EndOfData::V0(_)), v == 0);
    assert!(eod.version() == v);
    assert!(eod.session() == st.session() && eod.serial() == st.serial());
    assert!(eod.state().session() == st.session()
        && eod.state().serial() == st.serial());
    match eod.timing() {
        None => assert!(v == 0),
        Some(x) => assert!(v != 0 && x.refresh == t.refresh
            && x.retry == t.retry && x.expire == t.expire),
    }
    let w = eod.as_ref();
    assert_eq!(w.len(), if v == 0 { 12 } else { 24 });
    assert!(be32(w, 4) as usize == w.len());
    assert!(w[0] == v && w[1] == 7);
}

/// @tier quick thorough
/// @fn rpki::rtr::pdu::EndOfData::read_payload rpki::rtr::pdu::EndOfDataV0::read_payload
///   rpki::rtr::pdu::EndOfDataV1::read_payload
/// @bounds header built from arbitrary version, session and length field;
///   body stream of exactly 4 arbitrary bytes (a truncated body for the
///   24-byte form); unwind 5
/// @says with only 4 body bytes, End of Data is read exactly for version 0
///   with length 12; versions 1-2 fail (truncated), other versions and
///   lengths are refused; the accepted PDU reports version 0, the header's
///   session and the serial from the body
#[kani::proof]
#[kani::unwind(5)]
fn end_of_data_read_payload_short_body() {
    let v: u8 = kani::any();
    let sess: u16 = kani::any();
    let len: u32 = kani::any();
    let header = Header::new(v, 7, sess, len);
    let body4: [u8; 4] = kani::any();
    let mut rd = ChunkReader::new(&body4, false, 0);
    let r = block_on(EndOfData::read_payload(header, &mut rd), 1).unwrap();
    kani::cover!(r.is_ok());
    kani::cover!(r.is_err() && v == 0);
    kani::cover!(r.is_err() && v == 1 && len == 24);
    assert_eq!(r.is_ok(), v == 0 && len == 12);
    if let Ok(e) = &r {
        assert!(e.version() == 0 && e.session() == sess
            && e.serial().0 == be32(&body4, 0) && e.timing().is_none());
        assert!(rd.consumed() == 4);
    }
    std::mem::forget(r);
}

/// @tier off
/// @fn rpki::rtr::pdu::EndOfData::read_payload rpki::rtr::pdu::EndOfDataV1::read_payload
/// @bounds header built from version 0, 1, 2, 3 (enumerated), arbitrary
///   session and length field; body stream of exactly 16 arbitrary bytes
/// @says with a 16-byte body available, End of Data is read exactly for
///   version 0 / length 12 and versions 1-2 / length 24; accepted version
///   1-2 PDUs report version, session, serial and the three timers
#[kani::proof]
#[kani::unwind(5)]
fn end_of_data_read_payload_long_body() {
    kani::cover!(true);
    eod_long_body(1);
    eod_long_body(2);
    eod_long_body(3);
    eod_long_body(0);
}

fn eod_long_body(v: u8) {
    let sess: u16 = kani::any();
    let len: u32 = kani::any();
    let header = Header::new(v, 7, sess, len);
    let body16: [u8; 16] = kani::any();
    let mut rd = ChunkReader::new(&body16, false, 0);
    let r = block_on(EndOfData::read_payload(header, &mut rd), 1).unwrap();
    assert_eq!(r.is_ok(),
               (v == 0 && len == 12) || ((v == 1 || v == 2) && len == 24));
    if let Ok(e) = &r {
        if v != 0 {
            let t = e.timing().unwrap();
            assert!(e.version() == v && e.session() == sess
                && e.serial().0 == be32(&body16, 0)
                && t.refresh == be32(&body16, 4) && t.retry == be32(&body16, 8)
                && t.expire == be32(&body16, 12));
            assert!(rd.consumed() == 16);
        }
    }
    std::mem::forget(r);
}

/// @tier quick thorough
/// @fn rpki::rtr::pdu::Payload::new rpki::rtr::pdu::Payload::new_if_supported
///   rpki::rtr::pdu::Payload::to_payload rpki::rtr::pdu::Payload::flags
///   rpki::rtr::pdu::Payload::version rpki::rtr::pdu::Ipv4Prefix::new
///   rpki::rtr::pdu::Ipv6Prefix::new
///   rpki::rtr::payload::Action::from_flags rpki::rtr::payload::Action::into_flags
/// @bounds every IPv4 route origin (valid max-length prefix, full-width
///   address, any ASN), both actions, versions 0..=255
/// @says an origin with either action becomes, in every version, the prefix
///   PDU of its family carrying prefix, length, effective max length, ASN and
///   the action flag (lowest flag bit).  Composition: the prefix PDUs
///   round-trip the wire bit-identically (roundtrip_ipv4/6_prefix) and
///   to_payload_validates_v4/v6 show that a PDU with these fields converts
///   to exactly this origin and action -- together "survives the wire"
#[kani::proof]
#[kani::unwind(5)]
fn origin_v4_to_pdu_and_back() { origin_body(true); }

/// @tier quick thorough
/// @fn rpki::rtr::pdu::Payload::new rpki::rtr::pdu::Payload::new_if_supported
///   rpki::rtr::pdu::Payload::to_payload rpki::rtr::pdu::Ipv6Prefix::new
/// @bounds every IPv6 route origin, both actions, versions 0..=255
/// @says as origin_v4_to_pdu_and_back, for IPv6 origins
#[kani::proof]
#[kani::unwind(5)]
fn origin_v6_to_pdu_and_back() { origin_body(false); }

fn origin_body(want_v4: bool) {
    let (mlp, r, ml) = any_maxlen_prefix_of(want_v4);
    let asn: u32 = kani::any();
    let v: u8 = kani::any();
    let announce: bool = kani::any();
    let action = if announce { Action::Announce } else { Action::Withdraw };
    let origin = RouteOrigin::new(mlp, Asn::from_u32(asn));
    let p = Payload::new_if_supported(v, action.into_flags(),
                                      PayloadRef::Origin(origin));
    let p = p.unwrap();
    kani::cover!(ml.is_none() && announce);
    kani::cover!(ml.is_some() && !announce);
    assert!(p.version() == v && p.flags() == action.into_flags());
    match &p {
        Payload::V4(x) => {
            assert!(r.v4 && x.prefix_len() == r.len
                && x.max_len() == ml.unwrap_or(r.len)
                && u32::from(x.prefix()) as u128 == r.lo
                && x.asn().into_u32() == asn);
            assert!(x.as_ref().len() == 20 && be32(x.as_ref(), 4) == 20);
        }
        Payload::V6(x) => {
            assert!(!r.v4 && x.prefix_len() == r.len
                && x.max_len() == ml.unwrap_or(r.len)
                && u128::from(x.prefix()) == r.lo
                && x.asn().into_u32() == asn);
            assert!(x.as_ref().len() == 32 && be32(x.as_ref(), 4) == 32);
        }
        _ => panic!("origin must become a prefix PDU"),
    }
    assert!(Action::from_flags(p.flags()) == action);
}

/// Router key with key info of exactly N bytes: item -> PDU -> bytes, and
/// PDU -> item (no stream reader involved, see module notes).
fn router_key_body<const N: usize>() {
    let ki: [u8; 20] = kani::any();
    let asn: u32 = kani::any();
    let info: [u8; N] = kani::any();
    let v: u8 = kani::any();
    let announce: bool = kani::any();
    let action = if announce { Action::Announce } else { Action::Withdraw };
    let key = payload::RouterKey::new(
        ki.into(), Asn::from_u32(asn),
        RouterKeyInfo::new(Bytes::copy_from_slice(&info)).unwrap());
    let p = Payload::new_if_supported(v, action.into_flags(),
                                      PayloadRef::RouterKey(&key));
    kani::cover!(v == 0);
    kani::cover!(v == 1 && announce);
    assert_eq!(p.is_some(), v >= 1);
    if let Some(p) = p {
        let mut wire: Vec<u8> = Vec::with_capacity(48);
        block_on(p.write(&mut wire), 1).unwrap().unwrap();
        assert_eq!(wire.len(), 32 + N);
        assert_eq!(len_field(&wire), wire.len());
        assert!(wire[0] == v && wire[1] == 9 && wire[2] == action.into_flags()
            && wire[3] == 0);
        assert!(eq20(&wire, 8, &ki));
        assert!(be32(&wire, 28) == asn);
        if N >= 1 { assert!(wire[32] == info[0]); }
        if N >= 2 { assert!(wire[32 + N - 1] == info[N - 1]); }
        assert!(p.version() == v && p.flags() == action.into_flags());
        let (act, item) = match p.to_payload() {
            Ok(x) => x, Err(_) => panic!("to_payload refused") };
        assert!(act == action);
        match &item {
            payload::Payload::RouterKey(k) => {
                assert!(k.asn.into_u32() == asn);
                assert!(eq20(k.key_identifier.as_slice(), 0, &ki));
                let got = k.key_info.as_slice();
                assert!(got.len() == N);
                if N >= 1 { assert!(got[0] == info[0]); }
                if N >= 2 { assert!(got[N - 1] == info[N - 1]); }
            }
            _ => panic!("wrong payload kind"),
        }
        std::mem::forget(item);
        std::mem::forget(wire);
        std::mem::forget(p);
    }
    std::mem::forget(key);
}

/// @tier off
/// @fn rpki::rtr::pdu::RouterKey::new rpki::rtr::pdu::RouterKey::write
///   rpki::rtr::pdu::RouterKey::flags rpki::rtr::pdu::RouterKey::asn
///   rpki::rtr::pdu::RouterKey::key_identifier rpki::rtr::pdu::RouterKeyInfo::new
///   rpki::rtr::pdu::Payload::to_payload rpki::rtr::pdu::Payload::new_if_supported
/// @bounds size-indexed family (0, 1, 4 key info bytes), member for an
///   empty key info; every key identifier, ASN, both actions, all versions
/// @says a router key item becomes a Router Key PDU only for versions >= 1;
///   the bytes written are header(version, type 9, flags, zero, length =
///   32 + key length) | SKI | ASN | key, the length field equals the bytes
///   written, and converting the PDU back yields the same item and action
/// @out reading a Router Key / ASPA PDU back from a stream
///   (RouterKey::read_payload, Aspa::read_payload, Payload::read): the
///   solver queries for these readers do not finish (see DESIGN §3 C07), so
///   "written then read" is decided for the fixed-layout PDUs only
#[kani::proof]
#[kani::unwind(5)]
fn router_key_to_pdu_and_bytes_len0() { router_key_body::<0>(); }

/// @tier off
/// @fn rpki::rtr::pdu::RouterKey::new rpki::rtr::pdu::RouterKey::write
///   rpki::rtr::pdu::Payload::to_payload
/// @bounds size-indexed family, member for 1 arbitrary key info byte
/// @says see router_key_to_pdu_and_bytes_len0
#[kani::proof]
#[kani::unwind(5)]
fn router_key_to_pdu_and_bytes_len1() { router_key_body::<1>(); }

/// @tier off
/// @fn rpki::rtr::pdu::RouterKey::new rpki::rtr::pdu::RouterKey::write
///   rpki::rtr::pdu::Payload::to_payload
/// @bounds size-indexed family, member for 4 arbitrary key info bytes
/// @says see router_key_to_pdu_and_bytes_len0
#[kani::proof]
#[kani::unwind(5)]
fn router_key_to_pdu_and_bytes_len4() { router_key_body::<4>(); }

/// ASPA with exactly N providers: item -> PDU -> bytes, and PDU -> item.
fn aspa_body<const N: usize>() {
    let customer: u32 = kani::any();
    let prov: [u32; N] = kani::any();
    let v: u8 = kani::any();
    let announce: bool = kani::any();
    let action = if announce { Action::Announce } else { Action::Withdraw };
    let providers = ProviderAsns::try_from_iter(
        prov.iter().map(|p| Asn::from_u32(*p))).unwrap();
    assert!(providers.asn_count() as usize == N && providers.len() == 4 * N);
    let aspa = payload::Aspa::new(Asn::from_u32(customer), providers);
    let p = Payload::new_if_supported(v, action.into_flags(),
                                      PayloadRef::Aspa(&aspa));
    kani::cover!(v == 1);
    kani::cover!(v == 2 && announce);
    kani::cover!(v == 2 && !announce);
    assert_eq!(p.is_some(), v >= 2);
    if let Some(p) = p {
        let mut wire: Vec<u8> = Vec::with_capacity(32);
        block_on(p.write(&mut wire), 1).unwrap().unwrap();
        assert_eq!(wire.len(), 12 + 4 * N);
        assert_eq!(len_field(&wire), wire.len());
        assert!(wire[0] == v && wire[1] == 11
            && wire[2] == action.into_flags() && wire[3] == 0);
        assert!(be32(&wire, 8) == customer);
        if N >= 1 { assert!(be32(&wire, 12) == prov[0]); }
        if N >= 2 { assert!(be32(&wire, 8 + 4 * N) == prov[N - 1]); }
        let (act, item) = match p.to_payload() {
            Ok(x) => x, Err(_) => panic!("to_payload refused") };
        assert!(act == action);
        match &item {
            payload::Payload::Aspa(a) => {
                assert!(a.customer.into_u32() == customer);
                assert!(a.key().into_u32() == customer);
                if announce {
                    assert!(a.providers.asn_count() as usize == N);
                    let mut it = a.providers.iter();
                    if N >= 1 {
                        assert!(it.next().unwrap().into_u32() == prov[0]);
                    }
                    if N >= 2 {
                        assert!(it.next().unwrap().into_u32() == prov[1]);
                    }
                    if N <= 2 {
                        assert!(it.next().is_none());
                    }
                } else {
                    assert!(a.providers.is_empty());
                }
            }
            _ => panic!("wrong payload kind"),
        }
        std::mem::forget(item);
        std::mem::forget(wire);
        std::mem::forget(p);
    }
    std::mem::forget(aspa);
}

/// @tier off
/// @fn rpki::rtr::pdu::Aspa::new rpki::rtr::pdu::Aspa::write
///   rpki::rtr::pdu::Aspa::customer rpki::rtr::pdu::ProviderAsns::try_from_iter
///   rpki::rtr::pdu::ProviderAsns::iter rpki::rtr::pdu::ProviderAsns::asn_count
///   rpki::rtr::pdu::Payload::to_payload rpki::rtr::pdu::Payload::new_if_supported
/// @bounds size-indexed family (0, 1, 2 providers), member for no provider;
///   any customer, both actions, all versions
/// @says an ASPA item becomes an ASPA PDU only for versions >= 2; the bytes
///   written are header(version, type 11, flags, zero, length = 12 +
///   4*providers) | customer | providers in order; converting the PDU back
///   yields, for an announcement, the same customer and provider sequence
///   and, for a withdrawal, the customer with an empty provider list
/// @out more than 2 providers; reading the PDU back from a stream (see
///   router_key_to_pdu_and_bytes)
#[kani::proof]
#[kani::unwind(6)]
fn aspa_to_pdu_and_bytes_0() { aspa_body::<0>(); }

/// @tier off
/// @fn rpki::rtr::pdu::Aspa::new rpki::rtr::pdu::Aspa::write
///   rpki::rtr::pdu::Payload::to_payload rpki::rtr::pdu::ProviderAsns::iter
/// @bounds size-indexed family, member for 1 arbitrary provider ASN
/// @says see aspa_to_pdu_and_bytes_0
#[kani::proof]
#[kani::unwind(6)]
fn aspa_to_pdu_and_bytes_1() { aspa_body::<1>(); }

/// @tier off
/// @fn rpki::rtr::pdu::Aspa::new rpki::rtr::pdu::Aspa::write
///   rpki::rtr::pdu::Payload::to_payload rpki::rtr::pdu::ProviderAsns::iter
/// @bounds size-indexed family, member for 2 arbitrary provider ASNs
/// @says see aspa_to_pdu_and_bytes_0
#[kani::proof]
#[kani::unwind(6)]
fn aspa_to_pdu_and_bytes_2() { aspa_body::<2>(); }

fn to_payload_body(v4: bool) {
    let (v, fl, pl, ml): (u8, u8, u8, u8) = kani::any();
    let asn: u32 = kani::any();
    let a: u128 = kani::any();
    let p = if v4 {
        Payload::V4(Ipv4Prefix::new(v, fl, pl, ml, Ipv4Addr::from(a as u32),
                                    Asn::from_u32(asn)))
    } else {
        Payload::V6(Ipv6Prefix::new(v, fl, pl, ml, Ipv6Addr::from(a),
                                    Asn::from_u32(asn)))
    };
    let fam_max = if v4 { 32 } else { 128 };
    let expect_ok = pl <= ml && ml <= fam_max;
    let res = p.to_payload();
    kani::cover!(res.is_ok() && pl == fam_max);
    kani::cover!(res.is_err() && pl <= fam_max);
    kani::cover!(res.is_err() && pl > fam_max);
    assert_eq!(res.is_ok(), expect_ok);
    match res {
        Ok((act, item)) => {
            assert!(act.is_announce() == (fl & 1 == 1));
            let o = item.to_origin().unwrap();
            assert!(o.asn.into_u32() == asn);
            assert!(o.prefix.prefix_len() == pl);
            assert!(o.prefix.max_len() == Some(ml));
            assert!(o.is_v4() == v4);
            // the relaxed constructors themselves are decided in C13
            let want = if v4 {
                Prefix::new_v4_relaxed(Ipv4Addr::from(a as u32), pl)
            } else {
                Prefix::new_v6_relaxed(Ipv6Addr::from(a), pl)
            };
            assert!(o.prefix.prefix() == want.unwrap());
        }
        Err(e) => {
            let b = e.as_ref();
            assert!(b[0] == v && b[1] == 10);
            assert!(len_field(b) == b.len());
            std::mem::forget(e);
        }
    }
}

/// @tier quick thorough
/// @fn rpki::rtr::pdu::Payload::to_payload rpki::rtr::pdu::Error::new
/// @bounds every IPv4 Prefix PDU (all field values, valid or not); unwind 5
/// @says converting a received IPv4 prefix PDU succeeds exactly when
///   prefix length <= max length <= 32; on success the origin carries the
///   prefix with host bits cleared, the max length, the ASN and the action
///   given by the lowest flag bit; otherwise an Error PDU results (no panic)
#[kani::proof]
#[kani::unwind(5)]
fn to_payload_validates_v4() { to_payload_body(true); }

/// @tier quick thorough
/// @fn rpki::rtr::pdu::Payload::to_payload rpki::rtr::pdu::Error::new
/// @bounds every IPv6 Prefix PDU (all field values, valid or not); unwind 5
/// @says converting a received IPv6 prefix PDU succeeds exactly when
///   prefix length <= max length <= 128, with the same result fields
#[kani::proof]
#[kani::unwind(5)]
fn to_payload_validates_v6() { to_payload_body(false); }

//------------ broken streams --------------------------------------------------

/// SerialQuery::read on a stream cut after exactly N of 14 arbitrary bytes.
fn serial_query_trunc<const N: usize>() {
    let data: [u8; 14] = kani::any();
    let announced = len_field(&data);
    let ty = data[1];
    let mut rd = ChunkReader::new(&data[..N], false, 0);
    let res = block_on(SerialQuery::read(&mut rd), 1).unwrap();
    assert_eq!(res.is_ok(), N >= 12 && ty == 1 && announced == 12);
    assert!(rd.consumed() <= 12);
    if res.is_ok() {
        assert!(rd.consumed() == 12);
    }
    std::mem::forget(res);
}

/// @tier quick thorough
/// @fn rpki::rtr::pdu::SerialQuery::read
/// @bounds arbitrary 14-byte stream cut (closed) after exactly 0, 1, 7, 8,
///   11, 12 and 14 bytes -- every truncation class of a 12-byte PDU with an
///   8-byte header; unwind 6
/// @says SerialQuery::read accepts exactly a complete 12-byte PDU of type 1
///   with length field 12; a stream that ends early, another type or another
///   length is an error after at most 12 bytes; no panic, no spinning on the
///   closed stream
#[kani::proof]
#[kani::unwind(6)]
fn serial_query_truncated_streams() {
    kani::cover!(true);
    serial_query_trunc::<0>();
    serial_query_trunc::<1>();
    serial_query_trunc::<7>();
    serial_query_trunc::<8>();
    serial_query_trunc::<11>();
    serial_query_trunc::<12>();
    serial_query_trunc::<14>();
}

fn prefix_pdu_trunc<const N: usize>() {
    let data: [u8; 36] = kani::any();
    let announced = len_field(&data);
    let ty = data[1];
    let mut rd = ChunkReader::new(&data[..N], false, 0);
    let res = block_on(Ipv4Prefix::read(&mut rd), 1).unwrap();
    assert_eq!(res.is_ok(), N >= 20 && ty == 4 && announced == 20);
    assert!(rd.consumed() <= 20);
    std::mem::forget(res);
    let mut rd = ChunkReader::new(&data[..N], false, 0);
    let res = block_on(Ipv6Prefix::read(&mut rd), 1).unwrap();
    assert_eq!(res.is_ok(), N >= 32 && ty == 6 && announced == 32);
    assert!(rd.consumed() <= 32);
    std::mem::forget(res);
}

/// @tier quick thorough
/// @fn rpki::rtr::pdu::Ipv4Prefix::read rpki::rtr::pdu::Ipv6Prefix::read
/// @bounds arbitrary 36-byte stream cut after exactly 4, 8, 19, 20, 31, 32
///   and 36 bytes; unwind 6
/// @says the prefix PDU readers accept exactly a complete PDU of their type
///   and length (20 / 32); truncation inside header or body, a wrong type
///   or a wrong length field is an error after a bounded number of bytes
#[kani::proof]
#[kani::unwind(6)]
fn prefix_pdus_truncated_streams() {
    kani::cover!(true);
    prefix_pdu_trunc::<4>();
    prefix_pdu_trunc::<8>();
    prefix_pdu_trunc::<19>();
    prefix_pdu_trunc::<20>();
    prefix_pdu_trunc::<31>();
    prefix_pdu_trunc::<32>();
    prefix_pdu_trunc::<36>();
}

fn try_read_trunc<const N: usize>() {
    let data: [u8; 10] = kani::any();
    let announced = len_field(&data);
    let ty = data[1];
    let mut rd = ChunkReader::new(&data[..N], false, 0);
    let res = block_on(ResetQuery::read(&mut rd), 1).unwrap();
    assert_eq!(res.is_ok(), N >= 8 && ty == 2 && announced == 8);
    assert!(rd.consumed() <= 8);
    std::mem::forget(res);
    let mut rd = ChunkReader::new(&data[..N], false, 0);
    let res = block_on(CacheResponse::try_read(&mut rd), 1).unwrap();
    match &res {
        Ok(Ok(_)) => assert!(N >= 8 && ty == 3 && announced == 8),
        Ok(Err(h)) => assert!(N >= 8 && ty == 10 && h.pdu() == 10),
        Err(_) => assert!(N < 8 || (ty != 10 && (ty != 3 || announced != 8))),
    }
    assert!(rd.consumed() <= 8);
    std::mem::forget(res);
}

/// @tier quick thorough
/// @fn rpki::rtr::pdu::ResetQuery::read rpki::rtr::pdu::CacheResponse::try_read
/// @bounds arbitrary 10-byte stream cut after exactly 0, 3, 7, 8, 10 bytes
/// @says ResetQuery::read accepts exactly a complete 8-byte PDU of type 2 and
///   length 8; CacheResponse::try_read yields the PDU for type 3/length 8,
///   the header for an Error PDU (type 10), an error otherwise or on
///   truncation; at most 8 bytes consumed
#[kani::proof]
#[kani::unwind(6)]
fn header_only_pdus_truncated_streams() {
    kani::cover!(true);
    try_read_trunc::<0>();
    try_read_trunc::<3>();
    try_read_trunc::<7>();
    try_read_trunc::<8>();
    try_read_trunc::<10>();
}

/// skip_payload on a body stream cut after exactly N of 16 arbitrary bytes,
/// arbitrary header.
fn skip_body<const N: usize>() {
    let hdr: [u8; 8] = kani::any();
    let body: [u8; 16] = kani::any();
    let mut hr: &[u8] = &hdr;
    let header = block_on(Header::read(&mut hr), 1).unwrap().unwrap();
    let announced = len_field(&hdr);
    let mut rd = ChunkReader::new(&body[..N], false, 0);
    let res = block_on(pdu::Error::skip_payload(header, &mut rd), 1).unwrap();
    if announced < 8 {
        assert!(res.is_err());
        assert!(rd.consumed() == 0);
    } else if announced - 8 <= N {
        assert!(res.is_ok());
        assert!(rd.consumed() == announced - 8);
    } else {
        assert!(res.is_err());
    }
    std::mem::forget(res);
}

/// @tier quick thorough
/// @fn rpki::rtr::pdu::Error::skip_payload rpki::rtr::pdu::Header::pdu_len
///   rpki::rtr::pdu::Header::read
/// @bounds arbitrary 8-byte header (any length field); body stream of
///   arbitrary bytes closed after exactly 0, 1, 5 and 16 bytes; unwind 8
/// @says skipping the body of an Error PDU terminates: Ok after consuming
///   exactly length-8 bytes when the stream has them, an error when the
///   stream ends early or the length is below 8; it never keeps reading a
///   closed stream (no more than 3 reads after EOF) and never consumes more
///   than the header announces
/// @out body streams longer than 16 bytes
#[kani::proof]
#[kani::unwind(8)]
fn error_skip_payload_terminates() {
    kani::cover!(true);
    skip_body::<0>();
    skip_body::<1>();
    skip_body::<5>();
    skip_body::<16>();
}

/// Error PDU with embedded PDU of exactly NP and text of exactly NT bytes.
fn error_layout_body<const NP: usize, const NT: usize>() {
    let v: u8 = kani::any();
    let code: u16 = kani::any();
    let pdu_b: [u8; NP] = kani::any();
    let txt_b: [u8; NT] = kani::any();
    let e = pdu::Error::new(v, code, &pdu_b, &txt_b);
    let wire = e.as_ref();
    kani::cover!(code == 0x0102);
    assert_eq!(wire.len(), 16 + NP + NT);
    assert_eq!(len_field(wire), wire.len());
    assert!(wire[0] == v && wire[1] == 10);
    assert!(be16(wire, 2) == code);
    assert!(be32(wire, 8) as usize == NP);
    if NP >= 1 { assert!(wire[12] == pdu_b[0]); }
    if NP >= 2 { assert!(wire[12 + NP - 1] == pdu_b[NP - 1]); }
    assert!(be32(wire, 12 + NP) as usize == NT);
    if NT >= 1 { assert!(wire[16 + NP] == txt_b[0]); }
    if NT >= 2 { assert!(wire[16 + NP + NT - 1] == txt_b[NT - 1]); }
    std::mem::forget(e);
}

/// @tier quick thorough
/// @fn rpki::rtr::pdu::Error::new rpki::rtr::pdu::Error::as_ref
/// @bounds any version and error code; size-indexed members (embedded PDU,
///   text) = (0,0) and (8,5); unwind 5
/// @says an Error PDU is laid out as header(code in the session field,
///   total length) | pdu length | pdu | text length | text, and the length
///   field equals the number of bytes
/// @out other (pdu, text) sizes; the layout code is the same straight-line
///   sequence of appends for every size
#[kani::proof]
#[kani::unwind(5)]
fn error_pdu_layout() {
    error_layout_body::<0, 0>();
    error_layout_body::<8, 5>();
}

/// @tier quick thorough
/// @fn rpki::rtr::pdu::EndOfData::read_payload
/// @bounds header of type 7 with length 24 and version 3 (the first
///   unknown version; 255 has its own member); a complete 16-byte body of
///   arbitrary bytes is available; unwind 5
/// @says an End of Data PDU announcing an unknown protocol version is
///   refused with an error even when its length matches the 24-byte form
///   and the whole body is there
#[kani::proof]
#[kani::unwind(5)]
fn end_of_data_unknown_version_refused() {
    kani::cover!(true);
    eod_unknown_version(3);
}

fn eod_unknown_version(v: u8) {
    let body: [u8; 16] = kani::any();
    let header = Header::new(v, 7, 0, 24);
    let mut rd: &[u8] = &body;
    let r = block_on(EndOfData::read_payload(header, &mut rd), 1).unwrap();
    let bad = r.is_ok();
    std::mem::forget(r);
    assert!(!bad);
}

/// @tier quick thorough
/// @fn rpki::rtr::pdu::EndOfData::read_payload
/// @bounds as end_of_data_unknown_version_refused, for version 255
/// @says see end_of_data_unknown_version_refused
#[kani::proof]
#[kani::unwind(5)]
fn end_of_data_unknown_version_255_refused() {
    kani::cover!(true);
    eod_unknown_version(255);
}
