//! C03 — Resource sets behave as exact, canonical sets of addresses / AS
//! numbers.
//!
//! Layers (DESIGN §3 C03):
//!  L1  block laws and range/prefix arithmetic at full width (loop-free);
//!  L2  the generic chain algorithms (`OwnedChain::from_iter`, `trim`,
//!      `difference`, `is_encompassed`, `contains_item`, `==`) instantiated
//!      at a harness block type with `Item = u8` (both ends of the number
//!      space, adjacency and bridging all exist at 8 bits), operands of
//!      concrete length with symbolic bounds; canonical form and set
//!      semantics through one symbolic witness element;
//!  L3  `AsBlocks` at full width for the operations that add logic of their
//!      own (`verify_issued`, `verify_covered`, `contains`, `union`).
//! Operands of the binary operations are produced by *assuming* the chain
//! invariant on an arbitrary vector (one step from an arbitrary valid
//! state); the collect harnesses show the constructors establish it.
//! @jobs 6 @mem_gb 9 @quick_timeout 700 @thorough_timeout 3600 @thorough_jobs 4 @thorough_mem_gb 14
use crate::util::*;
use rpki::repository::resources::verif::{Block, Chain, OwnedChain};
use rpki::repository::resources::{
    Addr, AddressRange, AsBlock, AsBlocks, AsResources, Asn, IpBlock,
    Prefix,
};
use rpki::repository::cert::Overclaim;
use std::str::FromStr;

//------------ L1: AS blocks -----------------------------------------------------

fn asn(v: u32) -> Asn { Asn::from_u32(v) }

/// @tier quick thorough
/// @fn rpki::repository::resources::asres::AsBlock::new rpki::repository::resources::asres::AsBlock::min
///   rpki::repository::resources::asres::AsBlock::max rpki::repository::resources::asres::AsBlock::next
///   rpki::repository::resources::asres::AsBlock::previous rpki::repository::resources::asres::AsBlock::asn_count
///   rpki::repository::resources::chain::Block::contains
/// @bounds all (min, max) pairs of u32 with min <= max, any witness item
/// @says a block built from bounds is in canonical form (a single id when
///   min == max, a range otherwise), reports exactly its bounds, contains
///   exactly the items between them, counts max-min+1 items (where that
///   fits u32), and next/previous stop at the ends of the number space
#[kani::proof]
fn as_block_canonical_and_bounds() {
    let lo: u32 = kani::any();
    let hi: u32 = kani::any();
    kani::assume(lo <= hi);
    let b = <AsBlock as Block>::new(asn(lo), asn(hi));
    kani::cover!(lo == hi);
    kani::cover!(lo == 0 && hi == u32::MAX - 1);
    assert_eq!(matches!(b, AsBlock::Id(_)), lo == hi);
    assert!(b.min().into_u32() == lo && b.max().into_u32() == hi);
    let x: u32 = kani::any();
    assert_eq!(Block::contains(&b, asn(x)), lo <= x && x <= hi);
    if !(lo == 0 && hi == u32::MAX) {
        assert_eq!(b.asn_count(), hi - lo + 1);
    }
    assert_eq!(<AsBlock as Block>::next(asn(x)).map(Asn::into_u32),
               x.checked_add(1));
    assert_eq!(<AsBlock as Block>::previous(asn(x)).map(Asn::into_u32),
               x.checked_sub(1));
    let via_tuple = AsBlock::from((asn(lo), asn(hi)));
    assert!(via_tuple.min().into_u32() == lo
        && via_tuple.max().into_u32() == hi);
}

/// @tier quick thorough
/// @fn rpki::repository::resources::chain::Block::sum rpki::repository::resources::chain::Block::intersects
///   rpki::repository::resources::chain::Block::is_encompassed
/// @bounds all pairs of valid AS blocks (full-width bounds)
/// @says two blocks have a sum exactly when they overlap or are adjacent
///   (also at 0 and at the maximum ASN), and the sum is their hull in
///   canonical form; intersects / is_encompassed are interval overlap /
///   inclusion
#[kani::proof]
fn as_block_sum_is_hull_when_touching() {
    let (a0, a1, b0, b1): (u32, u32, u32, u32) = kani::any();
    kani::assume(a0 <= a1 && b0 <= b1);
    let a = <AsBlock as Block>::new(asn(a0), asn(a1));
    let b = <AsBlock as Block>::new(asn(b0), asn(b1));
    let overlap = a0 <= b1 && b0 <= a1;
    let adjacent = (a1 < u32::MAX && a1 + 1 == b0)
        || (b1 < u32::MAX && b1 + 1 == a0);
    kani::cover!(adjacent && a1 == u32::MAX - 1);
    kani::cover!(overlap && a0 < b0 && b1 < a1);
    kani::cover!(!overlap && !adjacent);
    assert_eq!(a.intersects(&b), overlap);
    assert_eq!(a.is_encompassed(&b), b0 <= a0 && a1 <= b1);
    match a.sum(&b) {
        Some(s) => {
            assert!(overlap || adjacent);
            assert!(s.min().into_u32() == a0.min(b0));
            assert!(s.max().into_u32() == a1.max(b1));
            assert_eq!(matches!(s, AsBlock::Id(_)),
                       a0.min(b0) == a1.max(b1));
        }
        None => assert!(!overlap && !adjacent),
    }
}

//------------ L1: IP blocks, ranges, prefixes --------------------------------------

fn ref_prefix_range(bits: u128, len: u8) -> (u128, u128) {
    let mask = if len >= 128 { 0 } else { u128::MAX >> len };
    (bits & !mask, bits | mask)
}

/// @tier quick thorough
/// @fn rpki::repository::resources::ipres::Prefix::new rpki::repository::resources::ipres::Prefix::range
///   rpki::repository::resources::ipres::Prefix::min rpki::repository::resources::ipres::Prefix::max
///   rpki::repository::resources::ipres::Addr::to_min rpki::repository::resources::ipres::Addr::to_max
/// @bounds all 128-bit addresses, lengths 0..=128
/// @says a prefix denotes exactly the address range [addr with host bits
///   cleared, addr with host bits set]; to_min / to_max clear / set the
///   host bits
#[kani::proof]
fn ip_prefix_range_exact() {
    let bits: u128 = kani::any();
    let len: u8 = kani::any();
    kani::assume(len <= 128);
    let p = Prefix::new(Addr::from_bits(bits), len);
    let (lo, hi) = ref_prefix_range(bits, len);
    kani::cover!(len == 0);
    kani::cover!(len == 128);
    kani::cover!(len == 33 && lo != bits);
    assert!(p.min().to_bits() == lo && p.max().to_bits() == hi);
    let (a, b) = p.range();
    assert!(a.to_bits() == lo && b.to_bits() == hi);
    assert!(p.addr_len() == len);
    assert!(Addr::from_bits(bits).to_min(len).to_bits() == lo);
    assert!(Addr::from_bits(bits).to_max(len).to_bits() == hi);
}

/// @tier quick thorough
/// @fn rpki::repository::resources::ipres::AddressRange::into_prefix
///   rpki::repository::resources::ipres::AddressRange::new rpki::repository::resources::ipres::IpBlock::min
///   rpki::repository::resources::ipres::IpBlock::max
/// @bounds all pairs (min, max) of 128-bit addresses with min <= max
/// @says a range is expressed as a prefix exactly when it is one (its size
///   is a power of two and it is aligned), the prefix then denotes exactly
///   the range; the block built from bounds keeps exactly these bounds in
///   either representation
#[kani::proof]
fn ip_block_from_bounds_canonical() {
    let lo: u128 = kani::any();
    let hi: u128 = kani::any();
    kani::assume(lo <= hi);
    let x = lo ^ hi;
    // [lo, hi] is a prefix iff lo and hi share a prefix of some length and
    // differ in *all* bits below it: lo has zeros there, hi has ones.
    let is_prefix = (x & x.wrapping_add(1)) == 0 && (lo & x) == 0
        && (hi & x) == x;
    let block = <IpBlock as Block>::new(Addr::from_bits(lo),
                                        Addr::from_bits(hi));
    kani::cover!(is_prefix && lo != hi);
    kani::cover!(!is_prefix);
    kani::cover!(lo == 0 && hi == u128::MAX);
    assert_eq!(matches!(block, IpBlock::Prefix(_)), is_prefix);
    assert!(block.min().to_bits() == lo && block.max().to_bits() == hi);
    match AddressRange::new(Addr::from_bits(lo), Addr::from_bits(hi))
        .into_prefix()
    {
        Ok(p) => {
            assert!(is_prefix);
            assert!(p.min().to_bits() == lo && p.max().to_bits() == hi);
        }
        Err(r) => {
            assert!(!is_prefix);
            assert!(r.min().to_bits() == lo && r.max().to_bits() == hi);
        }
    }
    let x: u128 = kani::any();
    assert_eq!(Block::contains(&block, Addr::from_bits(x)),
               lo <= x && x <= hi);
    assert_eq!(<IpBlock as Block>::next(Addr::from_bits(x))
                   .map(Addr::to_bits), x.checked_add(1));
    assert_eq!(<IpBlock as Block>::previous(Addr::from_bits(x))
                   .map(Addr::to_bits), x.checked_sub(1));
}

//------------ L2: generic chain algorithms at Item = u8 -------------------------------

/// The harness instantiation of `Block`: a closed interval of u8.
#[derive(Clone, Copy, Debug, PartialEq, Eq)]
pub struct B8 { lo: u8, hi: u8 }

impl Block for B8 {
    type Item = u8;
    fn new(min: u8, max: u8) -> Self { B8 { lo: min, hi: max } }
    fn min(&self) -> u8 { self.lo }
    fn max(&self) -> u8 { self.hi }
    fn next(item: u8) -> Option<u8> { item.checked_add(1) }
    fn previous(item: u8) -> Option<u8> { item.checked_sub(1) }
}

fn any_b8() -> B8 {
    let lo: u8 = kani::any();
    let hi: u8 = kani::any();
    kani::assume(lo <= hi);
    B8 { lo, hi }
}

fn in_b8(b: &B8, x: u8) -> bool { b.lo <= x && x <= b.hi }

/// Canonical form of a chain: every block well-formed, ascending,
/// pairwise disjoint and non-adjacent.
fn canonical(c: &[B8]) -> bool {
    let mut i = 0;
    while i < c.len() {
        if c[i].lo > c[i].hi { return false; }
        if i > 0 {
            // previous.hi + 1 < this.lo  (no overlap, no adjacency)
            if c[i - 1].hi == u8::MAX { return false; }
            if c[i - 1].hi + 1 >= c[i].lo { return false; }
        }
        i += 1;
    }
    true
}

fn member(c: &[B8], x: u8) -> bool {
    let mut i = 0;
    let mut r = false;
    while i < c.len() {
        if in_b8(&c[i], x) { r = true; }
        i += 1;
    }
    r
}

/// Environment stub for `Vec::push` (std's amortised growth re-allocates
/// with sizes the model checker has to treat as symbolic once the number of
/// blocks depends on the input, which is what makes every collect query run
/// out of memory).  The stub reserves 8 slots once (a concrete allocation)
/// and then stores in place; exceeding the 8 slots fails the harness rather
/// than being ignored.  Same observable behaviour as `Vec::push` for up to
/// 8 elements.
fn push_stub<T, A: std::alloc::Allocator>(v: &mut Vec<T, A>, x: T) {
    if v.capacity() == 0 {
        v.reserve_exact(8);
    }
    let len = v.len();
    assert!(len < v.capacity(), "harness: push stub capacity exceeded");
    unsafe {
        std::ptr::write(v.as_mut_ptr().add(len), x);
        v.set_len(len + 1);
    }
}

/// Environment stub for `Vec::new`: same empty vector, but with room for 8
/// elements reserved up front (one concrete allocation), so that together
/// with `push_stub` no re-allocation with symbolic sizes is ever modelled.
fn vec_new_stub<T>() -> Vec<T> {
    Vec::with_capacity(8)
}

/// Environment stub for `Vec::with_capacity_in`: whatever capacity (<= 8) is
/// asked for, one buffer of 8 slots is allocated -- a concrete size instead
/// of a symbolic one.  Asking for more fails the harness.
fn with_capacity_stub<T, A: std::alloc::Allocator>(cap: usize, alloc: A)
    -> Vec<T, A> {
    assert!(cap <= 8, "harness: with_capacity stub asked for more than 8");
    let mut v = Vec::new_in(alloc);
    v.reserve_exact(8);
    v
}

fn collect2(order_sorted: bool) {
    let a = any_b8();
    let b = any_b8();
    if order_sorted { kani::assume(a.lo <= b.lo); }
    else { kani::assume(b.lo < a.lo); }
    let x: u8 = kani::any();
    let chain: OwnedChain<B8> = [a, b].into_iter().collect();
    let s = chain.as_slice();
    kani::cover!(s.len() == 2);
    kani::cover!(s.len() == 1 && a.hi < b.hi && a.lo < b.lo);
    assert!(canonical(s));
    assert_eq!(member(s, x), in_b8(&a, x) || in_b8(&b, x));
    assert_eq!(chain.contains_item(x), in_b8(&a, x) || in_b8(&b, x));
    std::mem::forget(chain);
}

/// @tier exp
/// @fn rpki::repository::resources::chain::OwnedChain::from_iter
///   rpki::repository::resources::chain::Chain::contains_item
/// @bounds instantiation OwnedChain<B8> (Item = u8); exactly 2 arbitrary
///   blocks given in ascending order of their lower bounds (overlapping,
///   nested, adjacent, touching 0 or 255 included); one witness item
/// @says collecting blocks yields a chain in canonical form (ascending,
///   disjoint, non-adjacent) that denotes exactly the union of the blocks
#[kani::proof]
#[kani::unwind(4)]
#[kani::stub(std::vec::Vec::push, push_stub)]
fn collect_two_sorted() { collect2(true); }

/// @tier exp
/// @fn rpki::repository::resources::chain::OwnedChain::from_iter
///   rpki::repository::resources::chain::from_iter_unsorted
///   rpki::repository::resources::chain::merge_or_add_block
/// @bounds OwnedChain<B8>; exactly 2 arbitrary blocks given in descending
///   order of their lower bounds (takes the unsorted path)
/// @says collecting blocks in any order yields a canonical chain denoting
///   the union
#[kani::proof]
#[kani::unwind(4)]
fn collect_two_unsorted() { collect2(false); }

fn collect3(force_unsorted: bool) {
    let a = any_b8();
    let b = any_b8();
    let c = any_b8();
    if force_unsorted {
        kani::assume(b.lo < a.lo || c.lo < b.lo.max(a.lo));
    } else {
        kani::assume(a.lo <= b.lo && b.lo <= c.lo);
    }
    let x: u8 = kani::any();
    let chain: OwnedChain<B8> = [a, b, c].into_iter().collect();
    let s = chain.as_slice();
    kani::cover!(s.len() == 3);
    kani::cover!(s.len() == 1);
    assert!(canonical(s));
    assert_eq!(member(s, x), in_b8(&a, x) || in_b8(&b, x) || in_b8(&c, x));
    std::mem::forget(chain);
}

/// @tier exp
/// @fn rpki::repository::resources::chain::OwnedChain::from_iter
/// @bounds OwnedChain<B8>; exactly 3 arbitrary blocks in ascending order of
///   lower bound; one witness item
/// @says collecting sorted blocks yields a canonical chain denoting the
///   union (the third block may extend, be swallowed by, or follow the
///   merged first two)
#[kani::proof]
#[kani::unwind(5)]
fn collect_three_sorted() { collect3(false); }

/// @tier exp
/// @fn rpki::repository::resources::chain::OwnedChain::from_iter
///   rpki::repository::resources::chain::from_iter_unsorted
///   rpki::repository::resources::chain::merge_or_add_block
/// @bounds OwnedChain<B8>; exactly 3 arbitrary blocks in any order that is
///   not ascending (the smallest size at which a later block can bridge two
///   earlier ones, e.g. 10-20, 30-40, 15-35); one witness item
/// @says collecting blocks in any order yields a canonical chain (in
///   particular no overlapping blocks remain) denoting the union
#[kani::proof]
#[kani::unwind(5)]
#[kani::stub(std::vec::Vec::push, push_stub)]
fn collect_three_unsorted() { collect3(true); }

/// An arbitrary canonical chain of exactly N blocks.
fn any_chain<const N: usize>() -> (OwnedChain<B8>, [B8; N]) {
    let mut arr = [B8 { lo: 0, hi: 0 }; N];
    let mut i = 0;
    while i < N {
        arr[i] = any_b8();
        i += 1;
    }
    kani::assume(canonical(&arr));
    let v: Vec<B8> = match N {
        0 => Vec::new(),
        1 => vec![arr[0]],
        2 => vec![arr[0], arr[1 % N.max(1)]],
        _ => vec![arr[0], arr[1 % N.max(1)], arr[2 % N.max(1)]],
    };
    (unsafe { OwnedChain::from_vec_unchecked(v) }, arr)
}

fn binop_body<const N: usize, const M: usize>() -> (bool, bool) {
    let (a, aa) = any_chain::<N>();
    let (b, bb) = any_chain::<M>();
    let x: u8 = kani::any();
    let ina = member(&aa, x);
    let inb = member(&bb, x);
    // membership
    assert_eq!(a.contains_item(x), ina);
    // difference
    let d = a.difference(&b);
    assert!(canonical(d.as_slice()));
    assert_eq!(member(d.as_slice(), x), ina && !inb);
    std::mem::forget(d);
    // trim = intersection (Ok(()) means "self unchanged")
    match a.trim(&b) {
        Ok(()) => assert_eq!(ina, ina && inb),
        Err(t) => {
            assert!(canonical(t.as_slice()));
            assert_eq!(member(t.as_slice(), x), ina && inb);
            std::mem::forget(t);
        }
    }
    std::mem::forget((a, b));
    (ina, inb)
}

/// @tier exp
/// @fn rpki::repository::resources::chain::Chain::difference rpki::repository::resources::chain::Chain::trim
///   rpki::repository::resources::chain::Chain::contains_item
/// @bounds OwnedChain<B8>; operands = arbitrary canonical chains of exactly
///   1 and 1 blocks; one witness item; unwind 6
/// @says difference and trim (intersection) of two canonical chains are
///   canonical chains denoting exactly the set difference / intersection;
///   trim reports "unchanged" only when the intersection equals self
#[kani::proof]
#[kani::unwind(6)]
#[kani::stub(std::vec::Vec::push, push_stub)]
#[kani::stub(std::vec::Vec::new, vec_new_stub)]
fn chain_ops_1x1() {
    let (ina, inb) = binop_body::<1, 1>();
    kani::cover!(ina && inb);
    kani::cover!(ina && !inb);
}

/// @tier exp
/// @fn rpki::repository::resources::chain::Chain::difference rpki::repository::resources::chain::Chain::trim
/// @bounds operands of exactly 2 and 1 blocks; unwind 7
/// @says see chain_ops_1x1
#[kani::proof]
#[kani::unwind(7)]
fn chain_ops_2x1() {
    let (ina, inb) = binop_body::<2, 1>();
    kani::cover!(ina && inb);
    kani::cover!(ina && !inb);
}

/// @tier exp
/// @fn rpki::repository::resources::chain::Chain::difference rpki::repository::resources::chain::Chain::trim
/// @bounds operands of exactly 1 and 2 blocks; unwind 7
/// @says see chain_ops_1x1
#[kani::proof]
#[kani::unwind(7)]
fn chain_ops_1x2() {
    let (ina, inb) = binop_body::<1, 2>();
    kani::cover!(ina && inb);
    kani::cover!(ina && !inb);
}

/// @tier exp
/// @fn rpki::repository::resources::chain::Chain::difference rpki::repository::resources::chain::Chain::trim
/// @bounds operands of exactly 2 and 2 blocks; unwind 8
/// @says see chain_ops_1x1
#[kani::proof]
#[kani::unwind(8)]
fn chain_ops_2x2_t() {
    let (ina, inb) = binop_body::<2, 2>();
    kani::cover!(ina && inb);
    kani::cover!(ina && !inb);
}

/// @tier quick thorough
/// @fn rpki::repository::resources::chain::Chain::difference rpki::repository::resources::chain::Chain::trim
/// @bounds one operand empty, the other of exactly 2 blocks (both ways)
/// @says see chain_ops_1x1 (border cases with the empty set)
#[kani::proof]
#[kani::unwind(7)]
fn chain_ops_with_empty() {
    kani::cover!(true);
    let _ = binop_body::<0, 2>();
    let _ = binop_body::<2, 0>();
}

fn encompass_body<const N: usize, const M: usize>() -> bool {
    let (a, aa) = any_chain::<N>();
    let (b, bb) = any_chain::<M>();
    // subset by witness: a ⊆ b iff no item is in a and not in b.  With
    // canonical chains it suffices to test the bounds of a's blocks: every
    // block of a must lie inside one block of b.
    let mut subset = true;
    let mut i = 0;
    while i < N {
        let mut inside = false;
        let mut j = 0;
        while j < M {
            if bb[j].lo <= aa[i].lo && aa[i].hi <= bb[j].hi { inside = true; }
            j += 1;
        }
        if !inside { subset = false; }
        i += 1;
    }
    assert_eq!(a.is_encompassed(&b), subset);
    // a witness confirms the reference: x in a and subset => x in b
    let x: u8 = kani::any();
    if subset && member(&aa, x) {
        assert!(member(&bb, x));
    }
    // equality
    let mut same = N == M;
    let mut i = 0;
    while i < N && i < M {
        if aa[i] != bb[i] { same = false; }
        i += 1;
    }
    assert_eq!(*a.as_chain() == *b.as_chain(), same);
    std::mem::forget((a, b));
    subset
}

/// @tier quick thorough
/// @fn rpki::repository::resources::chain::Chain::is_encompassed rpki::repository::resources::chain::Chain::eq
/// @bounds OwnedChain<B8>; arbitrary canonical operands of exactly 2 and 2
///   blocks; unwind 7
/// @says is_encompassed holds exactly when the first chain's set is a
///   subset of the second's; == holds exactly for identical block sequences
///   (which for canonical chains is set equality)
#[kani::proof]
#[kani::unwind(7)]
fn chain_subset_and_eq_2x2() {
    let subset = encompass_body::<2, 2>();
    kani::cover!(subset);
    kani::cover!(!subset);
}

/// @tier quick thorough
/// @fn rpki::repository::resources::chain::Chain::is_encompassed rpki::repository::resources::chain::Chain::eq
/// @bounds operands of exactly (1, 2), (2, 1), (0, 1), (1, 0) blocks
/// @says see chain_subset_and_eq_2x2
#[kani::proof]
#[kani::unwind(7)]
fn chain_subset_and_eq_mixed() {
    let s12 = encompass_body::<1, 2>();
    let s21 = encompass_body::<2, 1>();
    let s01 = encompass_body::<0, 1>();
    let s10 = encompass_body::<1, 0>();
    kani::cover!(s12 && !s21);
    kani::cover!(s21);
    assert!(s01 && !s10);
}

//------------ L3: AsBlocks at full width -----------------------------------------------

/// An arbitrary canonical AS chain of exactly N (<= 2) blocks plus its
/// bounds.
fn any_as_blocks<const N: usize>() -> (AsBlocks, [(u32, u32); N]) {
    let mut arr = [(0u32, 0u32); N];
    let mut i = 0;
    while i < N {
        let lo: u32 = kani::any();
        let hi: u32 = kani::any();
        kani::assume(lo <= hi);
        if i > 0 {
            kani::assume(arr[i - 1].1 < u32::MAX
                && arr[i - 1].1 + 1 < lo);
        }
        arr[i] = (lo, hi);
        i += 1;
    }
    let mk = |k: usize| <AsBlock as Block>::new(asn(arr[k].0), asn(arr[k].1));
    let v: Vec<AsBlock> = match N {
        0 => Vec::new(),
        1 => vec![mk(0)],
        _ => vec![mk(0), mk(1 % N.max(1))],
    };
    (AsBlocks::verif_from_vec_unchecked(v), arr)
}

fn as_member<const N: usize>(a: &[(u32, u32); N], x: u32) -> bool {
    let mut r = false;
    let mut i = 0;
    while i < N {
        if a[i].0 <= x && x <= a[i].1 { r = true; }
        i += 1;
    }
    r
}

fn as_canonical(b: &AsBlocks) -> bool {
    let mut prev: Option<u32> = None;
    let mut ok = true;
    for blk in b.iter() {
        let lo = blk.min().into_u32();
        let hi = blk.max().into_u32();
        if lo > hi { ok = false; }
        if matches!(blk, AsBlock::Range(_)) && lo == hi { ok = false; }
        if let Some(p) = prev {
            if p == u32::MAX || p + 1 >= lo { ok = false; }
        }
        prev = Some(hi);
    }
    ok
}

fn issued_body<const N: usize, const M: usize>() {
    let (issuer, ia) = any_as_blocks::<N>();
    let (claim, ca) = any_as_blocks::<M>();
    let x: u32 = kani::any();
    let in_i = as_member(&ia, x);
    let in_c = as_member(&ca, x);
    let res = AsResources::blocks(claim.clone());
    kani::cover!(in_i && in_c);
    kani::cover!(in_c && !in_i);
    // Trim: result == claim ∩ issuer
    match issuer.verify_issued(&res, Overclaim::Trim) {
        Ok(t) => {
            assert!(as_canonical(&t));
            assert_eq!(t.contains_asn(asn(x)), in_i && in_c);
            std::mem::forget(t);
        }
        Err(_) => panic!("trimming never fails"),
    }
    // Refuse: Ok(claim) iff claim ⊆ issuer
    match issuer.verify_issued(&res, Overclaim::Refuse) {
        Ok(t) => {
            // the witness shows: nothing outside the issuer is granted
            assert!(!in_c || in_i);
            assert_eq!(t.contains_asn(asn(x)), in_c);
            assert!(issuer.contains(&claim));
            std::mem::forget(t);
        }
        Err(e) => {
            assert!(!issuer.contains(&claim));
            std::mem::forget(e);
        }
    }
    // Inherit / missing
    match issuer.verify_issued(&AsResources::inherit(), Overclaim::Refuse) {
        Ok(t) => {
            assert_eq!(t.contains_asn(asn(x)), in_i);
            std::mem::forget(t);
        }
        Err(_) => panic!("inherit never fails"),
    }
    match issuer.verify_issued(&AsResources::missing(), Overclaim::Trim) {
        Ok(t) => assert!(t.is_empty()),
        Err(_) => panic!("missing never fails"),
    }
    assert_eq!(claim.verify_covered(&AsResources::blocks(issuer.clone()))
                   .is_ok(), issuer.contains(&claim));
    std::mem::forget((issuer, claim, res));
}

/// @tier exp
/// @fn rpki::repository::resources::asres::AsBlocks::verify_issued
///   rpki::repository::resources::asres::AsBlocks::verify_covered
///   rpki::repository::resources::asres::AsBlocks::contains
///   rpki::repository::resources::asres::AsBlocks::contains_asn
/// @bounds full-width AS numbers; issuer = arbitrary canonical set of
///   exactly 1 block, claim = exactly 1 block; one witness ASN; unwind 6
/// @says the issuance result is: under the trimming policy exactly claim ∩
///   issuer (canonical), under the refusing policy the claim itself when it
///   is a subset of the issuer and an error otherwise, the issuer's own set
///   for 'inherit', the empty set for 'missing'; nothing outside the issuer
///   is ever granted
#[kani::proof]
#[kani::unwind(6)]
fn as_verify_issued_1x1() { issued_body::<1, 1>(); }

/// @tier exp
/// @fn rpki::repository::resources::asres::AsBlocks::verify_issued
/// @bounds issuer exactly 2 blocks, claim exactly 1 block; unwind 7
/// @says see as_verify_issued_1x1
#[kani::proof]
#[kani::unwind(7)]
fn as_verify_issued_2x1_t() { issued_body::<2, 1>(); }

/// @tier exp
/// @fn rpki::repository::resources::asres::AsBlocks::verify_issued
/// @bounds issuer exactly 1 block, claim exactly 2 blocks; unwind 7
/// @says see as_verify_issued_1x1
#[kani::proof]
#[kani::unwind(7)]
fn as_verify_issued_1x2_t() { issued_body::<1, 2>(); }

fn as_text(s: &str) -> Option<(u32, u32)> {
    match AsBlock::from_str(s) {
        Ok(b) => Some((b.min().into_u32(), b.max().into_u32())),
        Err(_) => None,
    }
}

/// @tier quick thorough
/// @fn rpki::repository::resources::asres::AsBlock::from_str rpki::resources::asn::Asn::from_str
/// @bounds enumerated concrete texts (no symbolic input; symbolic text runs
///   out of memory in the integer parser): "AS3-AS5", "3-5", "7-7",
///   "AS5-AS3", "5-3", "4294967295-0"; unwind 12
/// @says a textual AS range is accepted only with lower bound <= upper
///   bound, so that every block obtainable from text is well-formed
#[kani::proof]
#[kani::unwind(12)]
fn as_block_from_str_ordered() {
    kani::cover!(true);
    assert!(as_text("AS3-AS5") == Some((3, 5)));
    assert!(as_text("3-5") == Some((3, 5)));
    assert!(as_text("7-7") == Some((7, 7)));
    assert!(as_text("AS5-AS3").is_none());
    assert!(as_text("5-3").is_none());
    assert!(as_text("4294967295-0").is_none());
}

//------------ L1: range -> prefix decomposition ----------------------------------------

fn v4_decomp_body(max_span: u32, max_prefixes: usize) {
    let lo: u32 = kani::any();
    let hi: u32 = kani::any();
    kani::assume(lo <= hi && hi - lo <= max_span);
    let x: u32 = kani::any();
    let range = AddressRange::new(
        Addr::from(std::net::Ipv4Addr::from(lo)),
        Addr::from(std::net::Ipv4Addr::from(hi)).to_max(32));
    let mut count = 0usize;
    let mut next_start: Option<u32> = Some(lo);
    let mut covered = false;
    for p in range.to_v4_prefixes() {
        let plo = (p.min().to_bits() >> 96) as u32;
        let phi = (p.max().to_bits() >> 96) as u32;
        // each item is a well-formed v4 prefix: aligned block of 2^k
        let len = p.addr_len();
        assert!(len <= 32);
        let size_m1 = if len == 0 { u32::MAX } else { (1u64 << (32 - len)) as u32 - 1 };
        assert!(plo & size_m1 == 0 && phi == plo | size_m1);
        // ascending, gap-free, non-overlapping tiling starting at lo
        assert!(next_start == Some(plo));
        next_start = phi.checked_add(1);
        if plo <= x && x <= phi { covered = true; }
        count += 1;
        assert!(count <= max_prefixes);
    }
    kani::cover!(count == 1);
    kani::cover!(count >= 3);
    // ... and ending exactly at hi
    assert!(next_start == hi.checked_add(1));
    assert_eq!(covered, lo <= x && x <= hi);
}

/// @tier quick thorough
/// @fn rpki::repository::resources::ipres::AddressRange::to_v4_prefixes
/// @bounds every IPv4 range [lo, hi] at an arbitrary 32-bit position with at
///   most 8 addresses (up to 4 prefixes); one witness address; unwind 7
/// @says the decomposition of a range is a sequence of well-formed, aligned
///   prefixes that tile the range exactly: ascending, gap-free,
///   non-overlapping, starting at the lower and ending at the upper bound
///   (also when the range ends at 255.255.255.255)
/// @out ranges of more than 8 (quick) / 64 (thorough) addresses; IPv6
#[kani::proof]
#[kani::unwind(7)]
fn v4_range_to_prefixes_span8() { v4_decomp_body(7, 4); }

/// @tier thorough
/// @fn rpki::repository::resources::ipres::AddressRange::to_v4_prefixes
/// @bounds every IPv4 range with at most 64 addresses (up to 10 prefixes)
/// @says see v4_range_to_prefixes_span8
#[kani::proof]
#[kani::unwind(13)]
fn v4_range_to_prefixes_span64_t() { v4_decomp_body(63, 10); }

fn v6_decomp_body(max_span: u128, max_prefixes: usize) {
    let lo: u128 = kani::any();
    let hi: u128 = kani::any();
    kani::assume(lo <= hi && hi - lo <= max_span);
    let x: u128 = kani::any();
    let range = AddressRange::new(Addr::from_bits(lo), Addr::from_bits(hi));
    let mut count = 0usize;
    let mut next_start: Option<u128> = Some(lo);
    let mut covered = false;
    for p in range.to_v6_prefixes() {
        let plo = p.min().to_bits();
        let phi = p.max().to_bits();
        let len = p.addr_len();
        assert!(len <= 128);
        let size_m1 = host_mask_v6(len);
        assert!(plo & size_m1 == 0 && phi == plo | size_m1);
        assert!(next_start == Some(plo));
        next_start = phi.checked_add(1);
        if plo <= x && x <= phi { covered = true; }
        count += 1;
        assert!(count <= max_prefixes);
    }
    kani::cover!(count == 1);
    kani::cover!(count >= 3);
    kani::cover!(hi == u128::MAX);
    assert!(next_start == hi.checked_add(1));
    assert_eq!(covered, lo <= x && x <= hi);
}

/// @tier quick thorough
/// @fn rpki::repository::resources::ipres::AddressRange::to_v6_prefixes
/// @bounds every IPv6 range [lo, hi] at an arbitrary 128-bit position with
///   at most 8 addresses (up to 4 prefixes); one witness address; unwind 7
/// @says as v4_range_to_prefixes_span8 for the 128-bit decomposition, also
///   when the range ends at the last address (no shift or add overflow)
/// @out longer ranges
#[kani::proof]
#[kani::unwind(7)]
fn v6_range_to_prefixes_span8() { v6_decomp_body(7, 4); }

//------------ L1: DER decoding of single ranges -------------------------------------

/// @tier off
/// @fn rpki::repository::resources::asres::AsBlock::take_opt_from
///   rpki::repository::resources::asres::AsRange::parse_content
/// @bounds ASRange ::= SEQUENCE { min INTEGER, max INTEGER } with one
///   arbitrary content octet (0..=127) for each bound; unwind 8
/// @says a decoded AS range has lower bound <= upper bound (an inverted
///   range in the RFC 3779 extension is refused), and carries exactly the
///   decoded bounds
#[kani::proof]
#[kani::unwind(8)]
fn as_range_der_ordered() {
    let lo: u8 = kani::any();
    let hi: u8 = kani::any();
    kani::assume(lo < 0x80 && hi < 0x80);
    let der = [0x30, 0x06, 0x02, 0x01, lo, 0x02, 0x01, hi];
    let res = bcder::Mode::Der.decode(&der[..], |cons| {
        AsBlock::take_opt_from(cons)
    });
    kani::cover!(matches!(res, Ok(Some(_))));
    kani::cover!(lo > hi);
    match res {
        Ok(Some(b)) => {
            assert!(lo <= hi);
            assert!(b.min().into_u32() == lo as u32
                && b.max().into_u32() == hi as u32);
        }
        Ok(None) => panic!("a SEQUENCE is a range"),
        Err(e) => {
            assert!(lo > hi);
            std::mem::forget(e);
        }
    }
}

// (The IP counterpart -- IpBlock::take_opt_from on SEQUENCE { BIT STRING,
// BIT STRING } -- cannot be compiled by Kani 0.68: internal compiler error
// `TryFromIntError(PosOverflow)` in codegen of the IP address decoder, the
// same ICE that blocks every certificate-carrying decoder.)

//------------ L2: the unsorted collection path from the hand-over state -----------------

use rpki::repository::resources::verif::verif_from_iter_unsorted;

/// `OwnedChain::from_iter` collects blocks on a fast path while they arrive
/// in ascending order and hands over to `from_iter_unsorted(res, block, rest)`
/// at the first out-of-order block.  This harness enters there: `res` = two
/// blocks as the fast path leaves them (ascending, disjoint, non-adjacent),
/// `block` = an arbitrary block that starts before the last one, no further
/// blocks.  That is exactly "collect [a, b, c] with c out of order".
/// Stub for the large-input branch of std's unstable sort: `sort` itself
/// uses insertion sort for slices of up to 20 elements and never calls
/// `ipnsort` for them, but symbolic execution explores the call.  With at
/// most 8 elements (the `push_stub` capacity) reaching it is impossible;
/// the stub fails the harness if it happens anyway.
fn ipnsort_unreachable<T, F: FnMut(&T, &T) -> bool>(
    _v: &mut [T], _is_less: &mut F,
) {
    panic!("ipnsort reached for a slice of at most 8 elements")
}

fn unsorted_handover_body() -> usize {
    let a = any_b8();
    let b = any_b8();
    let c = any_b8();
    kani::assume(canonical(&[a, b]));
    kani::assume(c.lo < b.lo);
    let x: u8 = kani::any();
    let mut res: Vec<B8> = Vec::with_capacity(4);
    res.push(a);
    res.push(b);
    let chain = verif_from_iter_unsorted(res, c);
    let s = chain.as_slice();
    let n = s.len();
    assert!(canonical(s));
    assert_eq!(member(s, x), in_b8(&a, x) || in_b8(&b, x) || in_b8(&c, x));
    std::mem::forget(chain);
    n
}

/// @tier quick thorough
/// @fn rpki::repository::resources::chain::from_iter_unsorted
///   rpki::repository::resources::chain::merge_or_add_block
///   rpki::repository::resources::chain::Block::sum
/// @bounds OwnedChain<B8> (Item = u8): two arbitrary blocks in canonical
///   order already collected, one arbitrary out-of-order third block (it may
///   overlap, touch or bridge the first two, or stand alone); one witness
///   item; unwind 6
/// @says collecting blocks in any order yields a chain in canonical form
///   (ascending, pairwise disjoint and non-adjacent) that denotes exactly
///   the union of the blocks -- in particular when a later block bridges two
///   earlier ones (10-20, 30-40, then 15-35)
/// @assume the first two blocks are in the state the sorted fast path of
///   from_iter leaves them (ascending, disjoint, non-adjacent) -- which
///   collect_sorted_2/3 decide; stubs: ipnsort -> panic (std's sort uses
///   insertion sort below 21 elements), Vec::new / Vec::push as in
///   chain_difference_2x2
/// @out more than three blocks
#[kani::proof]
#[kani::unwind(6)]
#[kani::stub(core::slice::sort::unstable::ipnsort, ipnsort_unreachable)]
#[kani::stub(std::vec::Vec::push, push_stub)]
#[kani::stub(std::vec::Vec::new, vec_new_stub)]
fn collect_third_block_out_of_order() {
    let n = unsorted_handover_body();
    kani::cover!(n == 1);
    kani::cover!(n == 3);
}

/// Stub for the unsorted path when the input is sorted by assumption: taking
/// it would be a defect, so it fails the harness instead of being modelled.
/// (Without this stub every call of `from_iter` drags std's sort networks
/// into the query -- symbolic execution explores the branch whether or not
/// the assumption excludes it -- and no collect harness finishes.)
fn unsorted_unreachable<T: Block, I: Iterator<Item = T>>(
    _res: Vec<T>, _block: T, _iter: I,
) -> OwnedChain<T> {
    panic!("unsorted path taken for input sorted by lower bound")
}

fn sorted_collect_body<const N: usize>() -> usize {
    let mut blocks = [B8 { lo: 0, hi: 0 }; N];
    let mut i = 0;
    while i < N {
        blocks[i] = any_b8();
        if i > 0 {
            kani::assume(blocks[i - 1].lo <= blocks[i].lo);
        }
        i += 1;
    }
    let x: u8 = kani::any();
    let chain: OwnedChain<B8> = blocks.into_iter().collect();
    let s = chain.as_slice();
    let n = s.len();
    assert!(canonical(s));
    let mut want = false;
    let mut i = 0;
    while i < N {
        if in_b8(&blocks[i], x) { want = true; }
        i += 1;
    }
    assert_eq!(member(s, x), want);
    assert_eq!(chain.contains_item(x), want);
    std::mem::forget(chain);
    n
}

/// @tier quick thorough
/// @fn rpki::repository::resources::chain::OwnedChain::from_iter
///   rpki::repository::resources::chain::Chain::contains_item
/// @bounds OwnedChain<B8> (Item = u8); exactly 2 arbitrary blocks in
///   ascending order of their lower bounds (overlapping, nested, adjacent,
///   duplicated, touching 0 or 255 all included); one witness item; unwind 5
/// @says collecting blocks that arrive sorted yields a chain in canonical
///   form (ascending, disjoint, non-adjacent) denoting exactly their union,
///   also when a block ends at the top of the number space; the unsorted
///   path is never taken for sorted input
#[kani::proof]
#[kani::unwind(5)]
#[kani::stub(rpki::repository::resources::chain::from_iter_unsorted, unsorted_unreachable)]
fn collect_sorted_2() {
    let n = sorted_collect_body::<2>();
    kani::cover!(n == 1);
    kani::cover!(n == 2);
}

/// @tier quick thorough
/// @fn rpki::repository::resources::chain::OwnedChain::from_iter
/// @bounds OwnedChain<B8>; exactly 3 arbitrary blocks in ascending order of
///   lower bound; unwind 6
/// @says see collect_sorted_2
#[kani::proof]
#[kani::unwind(6)]
#[kani::stub(rpki::repository::resources::chain::from_iter_unsorted, unsorted_unreachable)]
fn collect_sorted_3() {
    let n = sorted_collect_body::<3>();
    kani::cover!(n == 1);
    kani::cover!(n == 3);
}

/// @tier thorough
/// @fn rpki::repository::resources::chain::OwnedChain::from_iter
/// @bounds OwnedChain<B8>; exactly 4 arbitrary blocks in ascending order of
///   lower bound; unwind 7
/// @says see collect_sorted_2
/// @out more than 4 blocks
#[kani::proof]
#[kani::unwind(7)]
#[kani::stub(rpki::repository::resources::chain::from_iter_unsorted, unsorted_unreachable)]
fn collect_sorted_4_t() {
    let n = sorted_collect_body::<4>();
    kani::cover!(n == 1);
    kani::cover!(n == 4);
}

use rpki::repository::resources::verif::verif_merge_or_add_block;

/// Pairwise non-touching: no two blocks overlap or are adjacent (order
/// irrelevant) -- the invariant of the working vector of the unsorted
/// collection, which only gets sorted (and adjacent blocks merged) at the
/// end.
fn non_touching(c: &[B8]) -> bool {
    let mut i = 0;
    while i < c.len() {
        if c[i].lo > c[i].hi { return false; }
        let mut j = i + 1;
        while j < c.len() {
            let (a, b) = (c[i], c[j]);
            let apart = (a.hi < b.lo && a.hi + 1 < b.lo)
                || (b.hi < a.lo && b.hi + 1 < a.lo);
            if !apart { return false; }
            j += 1;
        }
        i += 1;
    }
    true
}

/// @tier quick thorough
/// @fn rpki::repository::resources::chain::merge_or_add_block
///   rpki::repository::resources::chain::Block::sum
/// @bounds OwnedChain<B8> working vector of exactly 2 arbitrary pairwise
///   non-touching blocks in either order, one arbitrary further block (it
///   may overlap, touch or bridge the two, e.g. 10-20, 30-40, then 15-35);
///   one witness item; unwind 6
/// @says one step of collecting blocks in arbitrary order: adding a block to
///   pairwise non-touching blocks yields pairwise non-touching blocks that
///   denote exactly the union.  (Induction over the input gives a vector
///   that only needs sorting to be canonical; the final std sort and the
///   adjacent-merge pass after it are not part of this query.)
/// @out the final sort; vectors of more than 2 blocks before the step
#[kani::proof]
#[kani::unwind(6)]
fn collect_unsorted_step_keeps_blocks_apart() {
    let a = any_b8();
    let b = any_b8();
    let c = any_b8();
    kani::assume(non_touching(&[a, b]));
    let x: u8 = kani::any();
    let mut res: Vec<B8> = Vec::with_capacity(4);
    res.push(a);
    res.push(b);
    verif_merge_or_add_block(&mut res, c);
    kani::cover!(res.len() == 1);
    kani::cover!(res.len() == 3);
    assert!(member(&res, x) == (in_b8(&a, x) || in_b8(&b, x) || in_b8(&c, x)));
    assert!(non_touching(&res));
    std::mem::forget(res);
}

fn issued_refuse_body<const N: usize, const M: usize>() -> (bool, bool) {
    let (issuer, ia) = any_as_blocks::<N>();
    let (claim, ca) = any_as_blocks::<M>();
    let x: u32 = kani::any();
    let in_i = as_member(&ia, x);
    let in_c = as_member(&ca, x);
    // reference subset test on the bounds
    let mut subset = true;
    let mut i = 0;
    while i < M {
        let mut inside = false;
        let mut j = 0;
        while j < N {
            if ia[j].0 <= ca[i].0 && ca[i].1 <= ia[j].1 { inside = true; }
            j += 1;
        }
        if !inside { subset = false; }
        i += 1;
    }
    let res = AsResources::blocks(claim.clone());
    match issuer.verify_issued(&res, Overclaim::Refuse) {
        Ok(t) => {
            assert!(subset);
            assert!(!in_c || in_i);
            assert_eq!(t.contains_asn(asn(x)), in_c);
            std::mem::forget(t);
        }
        Err(e) => {
            assert!(!subset);
            std::mem::forget(e);
        }
    }
    assert_eq!(issuer.contains(&claim), subset);
    assert_eq!(claim.verify_covered(&AsResources::blocks(issuer.clone()))
                   .is_ok(), subset);
    match issuer.verify_issued(&AsResources::inherit(), Overclaim::Refuse) {
        Ok(t) => {
            assert_eq!(t.contains_asn(asn(x)), in_i);
            std::mem::forget(t);
        }
        Err(_) => panic!("inherit never fails"),
    }
    match issuer.verify_issued(&AsResources::missing(), Overclaim::Refuse) {
        Ok(t) => assert!(t.is_empty()),
        Err(_) => panic!("missing never fails"),
    }
    assert_eq!(issuer.contains_asn(asn(x)), in_i);
    std::mem::forget((issuer, claim, res));
    (subset, in_c && !in_i)
}

/// @tier quick thorough
/// @fn rpki::repository::resources::asres::AsBlocks::verify_issued
///   rpki::repository::resources::asres::AsBlocks::verify_covered
///   rpki::repository::resources::asres::AsBlocks::contains
///   rpki::repository::resources::asres::AsBlocks::contains_asn
/// @bounds full-width AS numbers; issuer and claim = arbitrary canonical
///   sets of exactly 2 blocks each; one witness ASN; unwind 6
/// @says under the no-overclaim policy the issuance check succeeds exactly
///   when the claimed set is a subset of the issuer's set and then yields
///   exactly the claimed blocks (nothing outside the issuer is ever
///   granted); 'inherit' yields the issuer's own set, 'missing' the empty
///   set; contains / verify_covered are the subset test
/// @out the trimming policy (Chain::trim: out of memory, see DESIGN); IP
///   resources (same generic code, different block type)
#[kani::proof]
#[kani::unwind(6)]
fn as_verify_issued_refuse_2x2() {
    let (subset, outside) = issued_refuse_body::<2, 2>();
    kani::cover!(subset);
    kani::cover!(!subset && outside);
}

/// @tier quick thorough
/// @fn rpki::repository::resources::asres::AsBlocks::verify_issued
/// @bounds issuer exactly 1 block, claim exactly 2 blocks, and the reverse
/// @says see as_verify_issued_refuse_2x2
#[kani::proof]
#[kani::unwind(6)]
fn as_verify_issued_refuse_mixed() {
    let (s12, _) = issued_refuse_body::<1, 2>();
    let (s21, _) = issued_refuse_body::<2, 1>();
    kani::cover!(s12);
    kani::cover!(s21);
}

fn difference_body<const N: usize, const M: usize>() -> (bool, bool) {
    let (a, aa) = any_chain::<N>();
    let (b, bb) = any_chain::<M>();
    let x: u8 = kani::any();
    let ina = member(&aa, x);
    let inb = member(&bb, x);
    let d = a.difference(&b);
    assert!(canonical(d.as_slice()));
    assert_eq!(member(d.as_slice(), x), ina && !inb);
    std::mem::forget((d, a, b));
    (ina, inb)
}

/// @tier quick thorough
/// @fn rpki::repository::resources::chain::Chain::difference
/// @bounds OwnedChain<B8> (Item = u8); operands = arbitrary canonical chains
///   of exactly 2 and 2 blocks; one witness item; unwind 8
/// @says the difference of two canonical chains is a canonical chain
///   denoting exactly the set difference (all thirteen overlap cases of the
///   walk, including blocks touching 0 and 255)
/// @assume Vec::new / Vec::push are replaced by stubs that reserve 8 slots
///   once and store in place (same observable behaviour for <= 8 elements;
///   std's amortised growth is what the solver cannot get through)
#[kani::proof]
#[kani::unwind(8)]
#[kani::stub(std::vec::Vec::push, push_stub)]
#[kani::stub(std::vec::Vec::new, vec_new_stub)]
fn chain_difference_2x2() {
    let (ina, inb) = difference_body::<2, 2>();
    kani::cover!(ina && !inb);
    kani::cover!(ina && inb);
}

/// @tier quick thorough
/// @fn rpki::repository::resources::chain::Chain::difference
/// @bounds operands of exactly (1,1), (2,1), (1,2), (0,2), (2,0) blocks
/// @says see chain_difference_2x2 (smaller operands and the empty set)
/// @assume Vec::new / Vec::push stubs as in chain_difference_2x2
#[kani::proof]
#[kani::unwind(7)]
#[kani::stub(std::vec::Vec::push, push_stub)]
#[kani::stub(std::vec::Vec::new, vec_new_stub)]
fn chain_difference_small() {
    let (a11, b11) = difference_body::<1, 1>();
    let _ = difference_body::<2, 1>();
    let _ = difference_body::<1, 2>();
    let _ = difference_body::<0, 2>();
    let _ = difference_body::<2, 0>();
    kani::cover!(a11 && !b11);
}

/// @tier thorough
/// @fn rpki::repository::resources::chain::Chain::difference
/// @bounds operands of exactly 3 and 2 blocks, and 2 and 3; unwind 9
/// @says see chain_difference_2x2
/// @assume Vec::new / Vec::push stubs as in chain_difference_2x2
#[kani::proof]
#[kani::unwind(9)]
#[kani::stub(std::vec::Vec::push, push_stub)]
#[kani::stub(std::vec::Vec::new, vec_new_stub)]
fn chain_difference_3x2_t() {
    let (ina, inb) = difference_body::<3, 2>();
    let _ = difference_body::<2, 3>();
    kani::cover!(ina && !inb);
}

fn trim_body<const N: usize, const M: usize>() -> (bool, bool) {
    let (a, aa) = any_chain::<N>();
    let (b, bb) = any_chain::<M>();
    let x: u8 = kani::any();
    let ina = member(&aa, x);
    let inb = member(&bb, x);
    let unchanged = match a.trim(&b) {
        Ok(()) => {
            // "unchanged": the intersection equals self
            assert_eq!(ina, ina && inb);
            true
        }
        Err(t) => {
            assert!(canonical(t.as_slice()));
            assert_eq!(member(t.as_slice(), x), ina && inb);
            std::mem::forget(t);
            false
        }
    };
    std::mem::forget((a, b));
    (ina && inb, unchanged)
}

/// @tier exp
/// @says trim 1x1 with Vec stubs: still out of memory (slice-to-vec copy of symbolic length inside trim)
#[kani::proof]
#[kani::unwind(6)]
#[kani::stub(std::vec::Vec::push, push_stub)]
#[kani::stub(std::vec::Vec::new, vec_new_stub)]
#[kani::stub(std::vec::Vec::with_capacity_in, with_capacity_stub)]
fn probe_trim_1x1() {
    let (both, unchanged) = trim_body::<1, 1>();
    kani::cover!(both && !unchanged);
    kani::cover!(unchanged);
}


/// @tier quick thorough
/// @fn rpki::repository::resources::asres::AsBlocks::difference
///   rpki::repository::resources::chain::Chain::difference
///   rpki::repository::resources::asres::AsBlocks::contains_asn
/// @bounds full-width AS numbers; operands = arbitrary canonical AS sets of
///   exactly 2 blocks each; one witness ASN; unwind 8
/// @says the difference of two AS sets is a canonical AS set (single ids
///   stored as ids) denoting exactly the set difference, including at AS 0
///   and AS 4294967295
/// @assume Vec::new / Vec::push stubs as in chain_difference_2x2
#[kani::proof]
#[kani::unwind(8)]
#[kani::stub(std::vec::Vec::push, push_stub)]
#[kani::stub(std::vec::Vec::new, vec_new_stub)]
fn as_blocks_difference_2x2() {
    let (a, aa) = any_as_blocks::<2>();
    let (b, bb) = any_as_blocks::<2>();
    let x: u32 = kani::any();
    let ina = as_member(&aa, x);
    let inb = as_member(&bb, x);
    let d = a.difference(&b);
    kani::cover!(ina && !inb);
    kani::cover!(ina && inb);
    kani::cover!(aa[1].1 == u32::MAX && bb[0].0 == 0);
    assert!(as_canonical(&d));
    assert_eq!(d.contains_asn(asn(x)), ina && !inb);
    std::mem::forget((a, b, d));
}

fn collect_any_order_body<const N: usize>() -> usize {
    let mut blocks = [B8 { lo: 0, hi: 0 }; N];
    let mut i = 0;
    while i < N {
        blocks[i] = any_b8();
        i += 1;
    }
    let x: u8 = kani::any();
    let chain: OwnedChain<B8> = blocks.into_iter().collect();
    let s = chain.as_slice();
    let n = s.len();
    assert!(canonical(s));
    let mut want = false;
    let mut i = 0;
    while i < N {
        if in_b8(&blocks[i], x) { want = true; }
        i += 1;
    }
    assert_eq!(member(s, x), want);
    std::mem::forget(chain);
    n
}

/// @tier quick thorough
/// @fn rpki::repository::resources::chain::OwnedChain::from_iter
///   rpki::repository::resources::chain::from_iter_unsorted
///   rpki::repository::resources::chain::merge_or_add_block
/// @bounds OwnedChain<B8> (Item = u8); exactly 3 arbitrary blocks in ANY
///   order (all 256^6 inputs with lo <= hi: sorted, reversed, nested,
///   adjacent, duplicated, bridging, touching 0 or 255); one witness item;
///   unwind 7
/// @says collecting blocks in any order yields a chain in canonical form
///   (ascending, pairwise disjoint and non-adjacent) that denotes exactly
///   the union of the blocks
/// @assume stubs: ipnsort -> panic (std's sort uses insertion sort below 21
///   elements, the real insertion sort runs), Vec::new / Vec::push reserve 8
///   slots once and store in place
/// @out more than 3 (thorough: 4) blocks; block types other than the 8-bit
///   instantiation (the AS / IP block impls of new/min/max/next are decided
///   at full width separately)
#[kani::proof]
#[kani::unwind(7)]
#[kani::stub(core::slice::sort::unstable::ipnsort, ipnsort_unreachable)]
#[kani::stub(std::vec::Vec::push, push_stub)]
#[kani::stub(std::vec::Vec::new, vec_new_stub)]
fn collect_three_any_order() {
    let n = collect_any_order_body::<3>();
    kani::cover!(n == 1);
    kani::cover!(n == 3);
}

/// @tier thorough
/// @fn rpki::repository::resources::chain::OwnedChain::from_iter
///   rpki::repository::resources::chain::from_iter_unsorted
/// @bounds exactly 4 arbitrary blocks in any order; unwind 8
/// @says see collect_three_any_order
/// @assume stubs as in collect_three_any_order
#[kani::proof]
#[kani::unwind(8)]
#[kani::stub(core::slice::sort::unstable::ipnsort, ipnsort_unreachable)]
#[kani::stub(std::vec::Vec::push, push_stub)]
#[kani::stub(std::vec::Vec::new, vec_new_stub)]
fn collect_four_any_order_t() {
    let n = collect_any_order_body::<4>();
    kani::cover!(n == 1);
    kani::cover!(n == 4);
}

/// @tier thorough
/// @fn rpki::repository::resources::asres::AsBlocks::from_iter
///   rpki::repository::resources::chain::OwnedChain::from_iter
///   rpki::repository::resources::chain::from_iter_unsorted
///   rpki::repository::resources::asres::AsBlock::new rpki::repository::resources::asres::AsBlock::next
/// @bounds full-width AS numbers; exactly 3 arbitrary AS blocks (lo <= hi)
///   in any order through the public collector; one witness ASN; unwind 7
/// @says every AS set obtainable by collecting blocks in any order (with
///   overlaps, adjacency, duplicates, blocks touching AS 0 or AS 4294967295)
///   is canonical -- ascending, disjoint, non-adjacent, single ids stored as
///   ids -- and denotes exactly the union
/// @assume stubs as in collect_three_any_order
#[kani::proof]
#[kani::unwind(7)]
#[kani::stub(core::slice::sort::unstable::ipnsort, ipnsort_unreachable)]
#[kani::stub(std::vec::Vec::push, push_stub)]
#[kani::stub(std::vec::Vec::new, vec_new_stub)]
fn as_blocks_collect_three_any_order() {
    let b: [(u32, u32); 3] = kani::any();
    kani::assume(b[0].0 <= b[0].1 && b[1].0 <= b[1].1 && b[2].0 <= b[2].1);
    let x: u32 = kani::any();
    let mk = |k: usize| AsBlock::from((asn(b[k].0), asn(b[k].1)));
    let set: AsBlocks = [mk(0), mk(1), mk(2)].into_iter().collect();
    kani::cover!(b[0].1 == u32::MAX && b[1].0 == 0);
    kani::cover!(b[2].0 < b[0].0 && b[0].1 < b[1].0 && b[2].1 >= b[1].0);
    assert!(as_canonical(&set));
    assert_eq!(set.contains_asn(asn(x)), as_member(&b, x));
    std::mem::forget(set);
}

/// @tier exp
/// @fn rpki::repository::resources::asres::AsBlocks::union
///   rpki::repository::resources::chain::OwnedChain::from_iter
/// @bounds full-width AS numbers; operands = arbitrary canonical AS sets of
///   exactly 2 blocks each; one witness ASN; unwind 8
/// @says the union of two AS sets is a canonical AS set denoting exactly
///   the set union
/// @assume stubs as in collect_three_any_order
#[kani::proof]
#[kani::unwind(8)]
#[kani::stub(core::slice::sort::unstable::ipnsort, ipnsort_unreachable)]
#[kani::stub(std::vec::Vec::push, push_stub)]
#[kani::stub(std::vec::Vec::new, vec_new_stub)]
fn as_blocks_union_2x2() {
    let (a, aa) = any_as_blocks::<2>();
    let (b, bb) = any_as_blocks::<2>();
    let x: u32 = kani::any();
    let u = a.union(&b);
    kani::cover!(as_member(&aa, x) && !as_member(&bb, x));
    kani::cover!(aa[0].0 > bb[1].1);
    assert!(as_canonical(&u));
    assert_eq!(u.contains_asn(asn(x)), as_member(&aa, x) || as_member(&bb, x));
    std::mem::forget((a, b, u));
}
