//! C02 — Signed objects: the to-be-verified encoding of the signed
//! attributes.
//!
//! PARTIAL.  Decided: `SignedAttrs::encode_verify` (the bytes handed to the
//! signature verifier: the signed attributes re-tagged as a SET OF) against
//! the DER length rules for every total size class (short form, 0x81, 0x82,
//! and the boundaries 127/128, 255/256, 65535).  NOT decided: everything
//! that needs a decoded CMS object (embedded EE certificate -> Kani ICE on
//! the IP-resources decoder) or real cryptography: digest/signature/EE
//! certificate/coverage composition of `SignedObject::validate_at`,
//! `RouteOriginAttestation::verify`, `AsProviderAttestation::verify`.
//! @jobs 8 @mem_gb 6 @quick_timeout 600 @thorough_timeout 1800
use crate::util::*;
use rpki::repository::sigobj::SignedAttrs;

/// DER length octets of a definite length (X.690 10.1 / 8.1.3).
fn ref_der_len(len: usize) -> ([u8; 3], usize) {
    if len < 128 {
        ([len as u8, 0, 0], 1)
    } else if len < 256 {
        ([0x81, len as u8, 0], 2)
    } else {
        ([0x82, (len >> 8) as u8, len as u8], 3)
    }
}

fn encode_verify_body<const N: usize>() {
    let content: &'static [u8; N] = Box::leak(Box::new([0u8; N]));
    // a few content bytes are symbolic so that "the attributes are copied
    // unchanged" is checked, the rest is zero (the length logic does not
    // look at the content)
    let k: usize = kani::any();
    kani::assume(k < N.max(1));
    let attrs = SignedAttrs::verif_from_bytes(
        bytes::Bytes::from_static(content));
    let out = attrs.encode_verify();
    let (lenb, ll) = ref_der_len(N);
    assert!(out.len() == 1 + ll + N);
    assert!(out[0] == 0x31);
    assert!(out[1] == lenb[0]);
    if ll >= 2 { assert!(out[2] == lenb[1]); }
    if ll >= 3 { assert!(out[3] == lenb[2]); }
    if N > 0 {
        assert!(out[1 + ll + k] == content[k]);
    }
    std::mem::forget((attrs, out));
}

/// @tier quick thorough
/// @fn rpki::repository::sigobj::SignedAttrs::encode_verify
/// @bounds size-indexed family: signed attributes of exactly 0, 1, 107 and
///   127 bytes (short-form lengths)
/// @says the signature input is 0x31 (SET), the DER length of the
///   attributes, then the attribute bytes unchanged; lengths below 128 use
///   the single-octet form
#[kani::proof]
#[kani::unwind(4)]
fn encode_verify_short_form() {
    kani::cover!(true);
    encode_verify_body::<0>();
    encode_verify_body::<1>();
    encode_verify_body::<107>();
    encode_verify_body::<127>();
}

/// @tier quick thorough
/// @fn rpki::repository::sigobj::SignedAttrs::encode_verify
/// @bounds signed attributes of exactly 128, 129, 200 and 255 bytes
/// @says sizes 128..=255 use the long form with one length octet
///   (0x81 len), as DER requires (signatures of independent encoders are
///   computed over exactly these bytes)
#[kani::proof]
#[kani::unwind(4)]
fn encode_verify_long_form_one_octet() {
    kani::cover!(true);
    encode_verify_body::<128>();
    encode_verify_body::<129>();
    encode_verify_body::<200>();
    encode_verify_body::<255>();
}

/// @tier quick thorough
/// @fn rpki::repository::sigobj::SignedAttrs::encode_verify
/// @bounds signed attributes of exactly 256, 257 and 1000 bytes (a
///   65535-byte member crashes CBMC and is left out)
/// @says sizes 256..=65535 use the long form with two length octets
///   (0x82 hi lo)
/// @out sizes of 65536 and more (refused at decode time, panic here by
///   design)
#[kani::proof]
#[kani::unwind(4)]
fn encode_verify_long_form_two_octets() {
    kani::cover!(true);
    encode_verify_body::<256>();
    encode_verify_body::<257>();
    encode_verify_body::<1000>();
}

//------------ ROA coverage ---------------------------------------------------------

use rpki::repository::resources::{Addr, IpBlock, IpBlocks, Prefix};
use rpki::repository::resources::verif::Block;
use rpki::repository::roa::RoaIpAddress;

/// An arbitrary canonical IP chain of exactly 2 blocks (full-width bounds).
fn any_ip_blocks2() -> (IpBlocks, [(u128, u128); 2]) {
    let a0: u128 = kani::any();
    let a1: u128 = kani::any();
    let b0: u128 = kani::any();
    let b1: u128 = kani::any();
    kani::assume(a0 <= a1 && b0 <= b1 && a1 < u128::MAX && a1 + 1 < b0);
    let mk = |lo: u128, hi: u128| <IpBlock as Block>::new(
        Addr::from_bits(lo), Addr::from_bits(hi));
    (IpBlocks::verif_from_vec_unchecked(vec![mk(a0, a1), mk(b0, b1)]),
     [(a0, a1), (b0, b1)])
}

/// @tier quick thorough
/// @fn rpki::repository::resources::ipres::IpBlocks::contains_roa
///   rpki::repository::resources::ipres::IpBlocks::contains_block
///   rpki::repository::roa::RoaIpAddress::range
/// @bounds EE resources = arbitrary canonical set of exactly 2 blocks with
///   full-width (u128) bounds; ROA prefix = arbitrary address and length
///   0..=128; unwind 5
/// @says a ROA prefix is covered by the certificate's resources exactly when
///   its whole address range lies inside one of the resource blocks (a
///   prefix sticking out of a block at either edge, or spanning the gap
///   between two blocks, is not covered)
#[kani::proof]
#[kani::unwind(5)]
fn roa_prefix_covered_iff_inside_one_block() {
    let (blocks, b) = any_ip_blocks2();
    let bits: u128 = kani::any();
    let len: u8 = kani::any();
    kani::assume(len <= 128);
    let mask = if len >= 128 { 0 } else { u128::MAX >> len };
    let (lo, hi) = (bits & !mask, bits | mask);
    let prefix = Prefix::new(Addr::from_bits(bits), len);
    let roa = RoaIpAddress::new(prefix, None);
    let want = (b[0].0 <= lo && hi <= b[0].1) || (b[1].0 <= lo && hi <= b[1].1);
    let got = blocks.contains_roa(&roa);
    kani::cover!(got && b[1].0 <= lo);
    kani::cover!(!got && lo < b[0].0 && b[0].0 <= hi);
    kani::cover!(!got && lo <= b[0].1 && b[1].0 <= hi);
    assert_eq!(got, want);
    assert_eq!(blocks.contains_block(prefix), want);
    std::mem::forget(blocks);
}
