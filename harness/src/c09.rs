//! C09 — RRDP: delta chain, origins, per-element read limit.
//!
//! PARTIAL.  Everything that goes through quick-xml (parsing of
//! notification / snapshot / delta files, hence the write -> parse round
//! trip and the hostile-stream clause as a whole) cannot be executed by
//! Kani (memchr's CPU feature detection is inline assembly) and is NOT
//! decided here.  Decided: the delta-chain check, the origin check and the
//! byte counter that enforces the per-element limit (one inductive step
//! from an arbitrary counter state).
//! @jobs 8 @mem_gb 6 @quick_timeout 600 @thorough_timeout 3600
use crate::util::*;
use rpki::rrdp::{DeltaInfo, Hash, NotificationFile, UriAndHash};
use rpki::uri::Https;
use rpki::xml::decode::VerifCounter;
use std::io::BufRead;

fn https(s: &'static [u8], path_idx: usize) -> Https {
    Https::verif_from_parts(bytes::Bytes::from_static(s), path_idx)
}

fn delta(serial: u64) -> DeltaInfo {
    DeltaInfo::new(serial, https(b"https://h/d", 9), Hash::from([0u8; 32]))
}

fn notification(deltas: Vec<DeltaInfo>) -> NotificationFile {
    NotificationFile::new(
        uuid::Uuid::nil(), 1,
        UriAndHash::new(https(b"https://h/s", 9), Hash::from([0u8; 32])),
        deltas,
    )
}

/// Reference: sort ascending, keep the `keep` largest, consecutive?
fn ref_chain_ok<const N: usize>(mut s: [u64; N], limit: Option<usize>)
    -> (bool, usize) {
    // insertion sort
    let mut i = 1;
    while i < N {
        let mut j = i;
        while j > 0 && s[j - 1] > s[j] {
            s.swap(j - 1, j);
            j -= 1;
        }
        i += 1;
    }
    let keep = match limit { Some(l) if l < N => l, _ => N };
    let start = N - keep;
    let mut ok = true;
    let mut k = start + 1;
    while k < N {
        if s[k - 1] == u64::MAX || s[k - 1] + 1 != s[k] { ok = false; }
        k += 1;
    }
    (ok, keep)
}

fn chain_body<const N: usize>() {
    let serials: [u64; N] = kani::any();
    let limit: Option<usize> = kani::any();
    let v: Vec<DeltaInfo> = match N {
        1 => vec![delta(serials[0])],
        2 => vec![delta(serials[0]), delta(serials[1 % N])],
        _ => vec![delta(serials[0]), delta(serials[1 % N]),
                  delta(serials[2 % N])],
    };
    let mut n = notification(v);
    let got = n.sort_and_verify_deltas(limit);
    let (want, keep) = ref_chain_ok(serials, limit);
    kani::cover!(got && N > 1);
    kani::cover!(!got);
    kani::cover!(limit.is_some() && keep < N);
    assert_eq!(got, want);
    {
        assert!(n.deltas().len() == keep);
        // retained deltas are ascending
        let d = n.deltas();
        let mut i = 1;
        while i < d.len() {
            assert!(d[i - 1].serial() <= d[i].serial());
            i += 1;
        }
    }
    std::mem::forget(n);
}

/// @tier quick thorough
/// @fn rpki::rrdp::NotificationFile::sort_and_verify_deltas rpki::rrdp::NotificationFile::deltas
/// @bounds exactly 2 deltas with arbitrary u64 serials, arbitrary limit
///   (None or any usize); unwind 6
/// @says the delta-chain check succeeds exactly when, after sorting and
///   keeping the `limit` newest, the retained serials are consecutive
///   (serial u64::MAX has no successor); it never panics; the retained list
///   is sorted and has min(limit, n) entries
/// @out more than 3 deltas
#[kani::proof]
#[kani::unwind(6)]
fn delta_chain_two() { chain_body::<2>(); }

/// @tier quick thorough
/// @fn rpki::rrdp::NotificationFile::sort_and_verify_deltas
/// @bounds exactly 3 deltas with arbitrary u64 serials, arbitrary limit;
///   unwind 7
/// @says see delta_chain_two
#[kani::proof]
#[kani::unwind(7)]
fn delta_chain_three() { chain_body::<3>(); }

/// @tier quick thorough
/// @fn rpki::rrdp::NotificationFile::sort_and_verify_deltas
/// @bounds one delta / no delta, arbitrary limit
/// @says a single delta or an empty list is always a valid chain
#[kani::proof]
#[kani::unwind(5)]
fn delta_chain_trivial() {
    let limit: Option<usize> = kani::any();
    let mut n = notification(vec![delta(kani::any())]);
    kani::cover!(limit == Some(0));
    assert!(n.sort_and_verify_deltas(limit));
    std::mem::forget(n);
    let mut n = notification(Vec::new());
    assert!(n.sort_and_verify_deltas(limit));
    std::mem::forget(n);
}

/// @tier quick thorough
/// @fn rpki::rrdp::NotificationFile::has_matching_origins rpki::uri::Https::eq_authority
/// @bounds base, snapshot and two delta URIs of the shape https://X/p with
///   X one arbitrary letter each; unwind 6
/// @says the origin check succeeds exactly when the snapshot URI and every
///   delta URI have the base's authority (compared ignoring case)
#[kani::proof]
#[kani::unwind(6)]
fn matching_origins() {
    let l: [u8; 4] = kani::any();
    let mk = |c: u8| -> Https {
        let b: &'static [u8; 11] = Box::leak(Box::new(
            [b'h', b't', b't', b'p', b's', b':', b'/', b'/', c, b'/', b'p']));
        Https::verif_from_parts(bytes::Bytes::from_static(b), 9)
    };
    let alpha = |c: u8| (c | 0x20) >= b'a' && (c | 0x20) <= b'z';
    kani::assume(alpha(l[0]) && alpha(l[1]) && alpha(l[2]) && alpha(l[3]));
    let base = mk(l[0]);
    let n = NotificationFile::new(
        uuid::Uuid::nil(), 1,
        UriAndHash::new(mk(l[1]), Hash::from([0u8; 32])),
        vec![DeltaInfo::new(1, mk(l[2]), Hash::from([0u8; 32])),
             DeltaInfo::new(2, mk(l[3]), Hash::from([0u8; 32]))],
    );
    let same = |a: u8, b: u8| (a | 0x20) == (b | 0x20);
    let want = same(l[0], l[1]) && same(l[0], l[2]) && same(l[0], l[3]);
    kani::cover!(want && l[0] != l[3]);
    kani::cover!(!want && same(l[0], l[1]) && same(l[0], l[2]));
    assert_eq!(n.has_matching_origins(&base), want);
    std::mem::forget((n, base));
}

/// @tier quick thorough
/// @fn rpki::rrdp::NotificationFile::has_matching_origins rpki::uri::Https::eq_authority
///   rpki::uri::Https::authority
/// @bounds base, snapshot and one delta URI of the shapes https://X/p and
///   https://XY/p (authority of one or two arbitrary letters, the length
///   being the solver's choice per URI); unwind 6
/// @says authorities of different length never match, even when one is a
///   prefix of the other: the origin check succeeds exactly when snapshot
///   and delta authority equal the base's in length and, ignoring case, in
///   every byte
#[kani::proof]
#[kani::unwind(6)]
fn matching_origins_authority_lengths() {
    let l: [u8; 6] = kani::any();
    let two: [bool; 3] = kani::any();
    let alpha = |c: u8| (c | 0x20) >= b'a' && (c | 0x20) <= b'z';
    kani::assume(alpha(l[0]) && alpha(l[1]) && alpha(l[2]) && alpha(l[3])
        && alpha(l[4]) && alpha(l[5]));
    let mk = |c: u8, d: u8, two: bool| -> Https {
        if two {
            let b: &'static [u8; 12] = Box::leak(Box::new(
                [b'h', b't', b't', b'p', b's', b':', b'/', b'/', c, d, b'/',
                 b'p']));
            Https::verif_from_parts(bytes::Bytes::from_static(b), 10)
        } else {
            let b: &'static [u8; 11] = Box::leak(Box::new(
                [b'h', b't', b't', b'p', b's', b':', b'/', b'/', c, b'/',
                 b'p']));
            Https::verif_from_parts(bytes::Bytes::from_static(b), 9)
        }
    };
    let base = mk(l[0], l[1], two[0]);
    let n = NotificationFile::new(
        uuid::Uuid::nil(), 1,
        UriAndHash::new(mk(l[2], l[3], two[1]), Hash::from([0u8; 32])),
        vec![DeltaInfo::new(1, mk(l[4], l[5], two[2]),
                            Hash::from([0u8; 32]))],
    );
    let same = |a: u8, b: u8| (a | 0x20) == (b | 0x20);
    let eq = |i: usize, t: bool| t == two[0] && same(l[0], l[i])
        && (!t || same(l[1], l[i + 1]));
    let want = eq(2, two[1]) && eq(4, two[2]);
    kani::cover!(want && two[0]);
    kani::cover!(!want && same(l[0], l[2]) && two[0] && !two[1]);
    kani::cover!(!want && same(l[0], l[4]) && !two[0] && two[2]
        && eq(2, two[1]));
    assert_eq!(n.has_matching_origins(&base), want);
    std::mem::forget((n, base));
}

fn stub_format(_: std::fmt::Arguments<'_>) -> String {
    String::new()
}

/// @tier quick thorough
/// @fn rpki::xml::decode::BufReadCounter::fill_buf rpki::xml::decode::BufReadCounter::consume
///   rpki::xml::decode::BufReadCounter::reset rpki::xml::decode::BufReadCounter::limit
/// @bounds arbitrary counter state (trip, limit: any u64), arbitrary amount
///   consumed (<= 8, the size of the underlying buffer); one step
/// @says the byte counter refuses to hand out more input exactly when a
///   limit is set and more than `limit` bytes were consumed since the last
///   reset; consuming n bytes adds n (saturating); reset zeroes the count.
///   Inductively: between two resets at most limit + one buffer of bytes is
///   pulled from the underlying reader
/// @out what quick-xml does between two consume calls (trusted); the call
///   sites of reset_and_limit
#[kani::proof]
#[kani::unwind(4)]
#[kani::stub(alloc::fmt::format, stub_format)]
fn read_counter_step() {
    let data: [u8; 8] = kani::any();
    let trip: u64 = kani::any();
    let limit: u64 = kani::any();
    let amt: usize = kani::any();
    kani::assume(amt <= 8);
    let mut c = VerifCounter::new(&data[..]);
    c.limit(limit);
    c.verif_set_trip(trip);
    let refused = match c.fill_buf() {
        Ok(b) => { assert!(b.len() == 8); false }
        Err(e) => { std::mem::forget(e); true }
    };
    kani::cover!(refused);
    kani::cover!(!refused && limit > 0);
    assert_eq!(refused, limit > 0 && trip > limit);
    if !refused {
        c.consume(amt);
        assert_eq!(c.verif_trip(), trip.saturating_add(amt as u64));
    }
    c.reset();
    assert_eq!(c.verif_trip(), 0);
    assert!(c.fill_buf().is_ok());
}

//------------ hash attribute text ------------------------------------------------

fn hexval(c: u8) -> Option<u8> {
    match c {
        b'0'..=b'9' => Some(c - b'0'),
        b'a'..=b'f' => Some(c - b'a' + 10),
        b'A'..=b'F' => Some(c - b'A' + 10),
        _ => None,
    }
}

/// @tier quick thorough
/// @fn rpki::rrdp::Hash::from_str
/// @bounds every 64-octet ASCII string (all 64 octets symbolic, below 0x80);
///   the concrete lengths 0, 63 and 65 for the length rule; unwind 66
/// @says the hash attribute of publish / withdraw / snapshot / delta
///   elements parses exactly when it consists of 64 hexadecimal digits (in
///   either case) and then denotes those 32 octets; anything else is an
///   error, never a panic
/// @out non-ASCII text (multi-byte characters), the Display side (core::fmt)
#[kani::proof]
#[kani::unwind(66)]
fn hash_text_is_64_hex_digits() {
    use std::str::FromStr;
    let raw: [u8; 64] = kani::any();
    let mut i = 0;
    let mut all_hex = true;
    while i < 64 {
        kani::assume(raw[i] < 0x80);
        if hexval(raw[i]).is_none() { all_hex = false; }
        i += 1;
    }
    let s = unsafe { std::str::from_utf8_unchecked(&raw[..]) };
    let res = rpki::rrdp::Hash::from_str(s);
    kani::cover!(res.is_ok());
    kani::cover!(res.is_err());
    match res {
        Ok(h) => {
            assert!(all_hex);
            let k: usize = kani::any();
            kani::assume(k < 32);
            let want = (hexval(raw[2 * k]).unwrap() << 4)
                | hexval(raw[2 * k + 1]).unwrap();
            assert!(h.as_slice()[k] == want);
        }
        Err(_) => assert!(!all_hex),
    }
    assert!(rpki::rrdp::Hash::from_str("").is_err());
    let s63 = unsafe { std::str::from_utf8_unchecked(&raw[..63]) };
    assert!(rpki::rrdp::Hash::from_str(s63).is_err());
}
