//! Shared helpers for the harnesses.
use rpki::resources::addr::{MaxLenPrefix, Prefix};
use std::hash::{Hash, Hasher};
use std::net::{IpAddr, Ipv4Addr, Ipv6Addr};

/// A deterministic, loop-cheap hasher: distinguishes the byte sequences fed
/// to it well enough that "equal values hash equally" is a meaningful check
/// and is cheap for the solver (rotate + xor, no multiplication).
pub struct RotHasher(pub u64);

impl Hasher for RotHasher {
    fn write(&mut self, bytes: &[u8]) {
        for b in bytes {
            self.0 = self.0.rotate_left(7) ^ (*b as u64);
        }
        self.0 = self.0.rotate_left(3) ^ 0xA5;
    }
    fn finish(&self) -> u64 {
        self.0
    }
}

pub fn hash_of<T: Hash>(t: &T) -> u64 {
    let mut h = RotHasher(0x9E37_79B9);
    t.hash(&mut h);
    h.finish()
}

/// The reference view of a prefix: family, length and the inclusive range of
/// addresses it denotes, computed in the harness from (address, length) only
/// with plain integer arithmetic.  IPv4 addresses are kept in the low 32 bits.
#[derive(Clone, Copy)]
pub struct RefPrefix {
    pub v4: bool,
    pub len: u8,
    pub lo: u128,
    pub hi: u128,
}

pub fn host_mask_v4(len: u8) -> u32 {
    if len >= 32 { 0 } else { u32::MAX >> len }
}

pub fn host_mask_v6(len: u8) -> u128 {
    if len >= 128 { 0 } else { u128::MAX >> len }
}

/// An arbitrary valid prefix together with its reference view.  Built
/// through the public strict constructors from an arbitrary network address
/// whose host bits the harness cleared itself.
pub fn any_prefix() -> (Prefix, RefPrefix) {
    let v4: bool = kani::any();
    let len: u8 = kani::any();
    if v4 {
        kani::assume(len <= 32);
        let a: u32 = kani::any();
        let lo = a & !host_mask_v4(len);
        let p = Prefix::new_v4(Ipv4Addr::from(lo), len).unwrap();
        (p, RefPrefix { v4, len, lo: lo as u128,
                        hi: (lo | host_mask_v4(len)) as u128 })
    } else {
        kani::assume(len <= 128);
        let a: u128 = kani::any();
        let lo = a & !host_mask_v6(len);
        let p = Prefix::new_v6(Ipv6Addr::from(lo), len).unwrap();
        (p, RefPrefix { v4, len, lo, hi: lo | host_mask_v6(len) })
    }
}

/// As `any_prefix` but of a family fixed by the caller (a constant), so
/// that code dispatching on the family is pruned during symbolic execution.
pub fn any_prefix_of(v4: bool) -> (Prefix, RefPrefix) {
    let len: u8 = kani::any();
    if v4 {
        kani::assume(len <= 32);
        let a: u32 = kani::any();
        let lo = a & !host_mask_v4(len);
        let p = Prefix::new_v4(Ipv4Addr::from(lo), len).unwrap();
        (p, RefPrefix { v4, len, lo: lo as u128,
                        hi: (lo | host_mask_v4(len)) as u128 })
    } else {
        kani::assume(len <= 128);
        let a: u128 = kani::any();
        let lo = a & !host_mask_v6(len);
        let p = Prefix::new_v6(Ipv6Addr::from(lo), len).unwrap();
        (p, RefPrefix { v4, len, lo, hi: lo | host_mask_v6(len) })
    }
}

pub fn any_maxlen_prefix_of(v4: bool) -> (MaxLenPrefix, RefPrefix, Option<u8>) {
    let (p, r) = any_prefix_of(v4);
    let ml: Option<u8> = kani::any();
    if let Some(m) = ml {
        kani::assume(m >= r.len && m <= if r.v4 { 32 } else { 128 });
    }
    (MaxLenPrefix::new(p, ml).unwrap(), r, ml)
}

/// An arbitrary valid max-length prefix (None or len <= m <= family max).
pub fn any_maxlen_prefix() -> (MaxLenPrefix, RefPrefix, Option<u8>) {
    let (p, r) = any_prefix();
    let ml: Option<u8> = kani::any();
    if let Some(m) = ml {
        kani::assume(m >= r.len && m <= if r.v4 { 32 } else { 128 });
    }
    (MaxLenPrefix::new(p, ml).unwrap(), r, ml)
}

pub fn addr_to_u128(a: IpAddr) -> u128 {
    match a {
        IpAddr::V4(a) => u32::from(a) as u128,
        IpAddr::V6(a) => u128::from(a),
    }
}

//------------ async driver ----------------------------------------------------

use std::future::Future;
use std::io;
use std::pin::{pin, Pin};
use std::task::{Context, Poll, Waker};
use tokio::io::{AsyncRead, ReadBuf};

/// Polls a future to completion with a no-op waker, at most `max_polls`
/// times.  This is the whole executor: single-threaded, every poll order is
/// "poll again".  `None` means the future was still pending.
pub fn block_on<F: Future>(f: F, max_polls: usize) -> Option<F::Output> {
    let mut f = pin!(f);
    let waker = Waker::noop();
    let mut cx = Context::from_waker(&waker);
    let mut i = 0;
    while i < max_polls {
        if let Poll::Ready(v) = f.as_mut().poll(&mut cx) {
            return Some(v);
        }
        i += 1;
    }
    None
}

/// An in-memory stream that hands out its bytes in solver-chosen pieces.
///
/// * each `poll_read` delivers between 1 and `min(buffer space, bytes left)`
///   bytes, the number being a fresh symbolic value (so every fragmentation
///   of the stream is covered), or -- while `pending_left > 0` -- may return
///   `Pending` instead (solver's choice);
/// * at end of stream it reports EOF (0 bytes).  A reader that keeps reading
///   after EOF is spinning: the fourth read after EOF panics ("reader spins
///   on a closed stream"), which also cuts the path for the model checker.
pub struct ChunkReader<'a> {
    pub data: &'a [u8],
    pub pos: usize,
    pub eof_reads: u32,
    pub pending_left: u8,
    pub fragment: bool,
    pub reads: u32,
}

impl<'a> ChunkReader<'a> {
    pub fn new(data: &'a [u8], fragment: bool, pending: u8) -> Self {
        ChunkReader { data, pos: 0, eof_reads: 0, pending_left: pending,
                      fragment, reads: 0 }
    }
    pub fn consumed(&self) -> usize {
        self.pos
    }
}

impl AsyncRead for ChunkReader<'_> {
    fn poll_read(
        mut self: Pin<&mut Self>, _cx: &mut Context<'_>,
        buf: &mut ReadBuf<'_>,
    ) -> Poll<io::Result<()>> {
        if self.pending_left > 0 && kani::any() {
            self.pending_left -= 1;
            return Poll::Pending;
        }
        self.reads += 1;
        let left = self.data.len() - self.pos;
        let room = buf.remaining();
        if left == 0 || room == 0 {
            if left == 0 && room > 0 {
                self.eof_reads += 1;
                if self.eof_reads > 3 {
                    panic!("reader spins on a closed stream");
                }
            }
            return Poll::Ready(Ok(()));
        }
        let max = if left < room { left } else { room };
        // fragment mode: the solver chooses between "one byte" and "all that
        // fits" for every single read (copies of concrete size 1 or of the
        // natural size); sequences of such choices generate every
        // fragmentation whose pieces are single bytes or run to a read
        // boundary of the consumer.
        let n = if self.fragment && kani::any() { 1 } else { max };
        let pos = self.pos;
        buf.put_slice(&self.data[pos..pos + n]);
        self.pos += n;
        Poll::Ready(Ok(()))
    }
}

/// A bounded in-memory sink (AsyncWrite) that copies byte by byte into a
/// fixed array; always ready, never short.
pub struct ArrayWriter<const N: usize> {
    pub buf: [u8; N],
    pub len: usize,
}

impl<const N: usize> ArrayWriter<N> {
    pub fn new() -> Self {
        ArrayWriter { buf: [0u8; N], len: 0 }
    }
    pub fn bytes(&self) -> &[u8] {
        &self.buf[..self.len]
    }
}

impl<const N: usize> tokio::io::AsyncWrite for ArrayWriter<N> {
    fn poll_write(
        mut self: Pin<&mut Self>, _cx: &mut Context<'_>, src: &[u8],
    ) -> Poll<io::Result<usize>> {
        let mut i = 0;
        while i < src.len() {
            assert!(self.len < N, "harness sink too small");
            let l = self.len;
            self.buf[l] = src[i];
            self.len += 1;
            i += 1;
        }
        Poll::Ready(Ok(src.len()))
    }
    fn poll_flush(self: Pin<&mut Self>, _cx: &mut Context<'_>)
        -> Poll<io::Result<()>> {
        Poll::Ready(Ok(()))
    }
    fn poll_shutdown(self: Pin<&mut Self>, _cx: &mut Context<'_>)
        -> Poll<io::Result<()>> {
        Poll::Ready(Ok(()))
    }
}

//------------ loop-free byte helpers -------------------------------------------
// (slice `==` is a memcmp loop under CBMC; these keep harnesses loop-free so
// that the global unwind bound only has to cover the loops of the code under
// verification)

pub fn be16(b: &[u8], o: usize) -> u16 {
    u16::from_be_bytes([b[o], b[o + 1]])
}
pub fn be32(b: &[u8], o: usize) -> u32 {
    u32::from_be_bytes([b[o], b[o + 1], b[o + 2], b[o + 3]])
}
pub fn be64(b: &[u8], o: usize) -> u64 {
    ((be32(b, o) as u64) << 32) | be32(b, o + 4) as u64
}
pub fn be128(b: &[u8], o: usize) -> u128 {
    ((be64(b, o) as u128) << 64) | be64(b, o + 8) as u128
}
/// Equality of 20 bytes starting at `o` with `k`, loop-free.
pub fn eq20(b: &[u8], o: usize, k: &[u8; 20]) -> bool {
    be128(b, o) == be128(k, 0) && be32(b, o + 16) == be32(k, 16)
}
