//! Shared helpers for the harnesses.
