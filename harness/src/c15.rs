//! C15 — SLURM: a payload is dropped exactly when some filter of its kind
//! matches.
//!
//! Filters are lists of exactly two prefix, two BGPsec and (optionally) two
//! ASPA filters whose criteria are individually present or absent (solver's
//! choice); since a filter without criteria matches nothing, such lists also
//! represent every shorter list semantically; the structurally empty lists
//! have their own harness.
//! @jobs 8 @mem_gb 6 @quick_timeout 600 @thorough_timeout 1800
use crate::util::*;
use bytes::Bytes;
use rpki::crypto::keys::KeyIdentifier;
use rpki::resources::addr::{MaxLenPrefix, Prefix};
use rpki::resources::asn::Asn;
use rpki::rtr::payload::{self as rtr, RouteOrigin};
use rpki::rtr::pdu::{ProviderAsns, RouterKeyInfo};
use rpki::slurm::*;

struct RefPrefixFilter { prefix: Option<RefPrefix>, asn: Option<u32> }

fn any_prefix_filter() -> (PrefixFilter, RefPrefixFilter) {
    let (p, r) = any_prefix();
    let has_p: bool = kani::any();
    let asn: Option<u32> = kani::any();
    (
        PrefixFilter::new(if has_p { Some(p) } else { None },
                          asn.map(Asn::from_u32), None),
        RefPrefixFilter { prefix: if has_p { Some(r) } else { None }, asn },
    )
}

/// Reference from the property text.
fn ref_prefix_match(f: &RefPrefixFilter, o: &RefPrefix, asn: u32) -> bool {
    let covers = f.prefix.map(|p| p.v4 == o.v4 && p.lo <= o.lo && o.hi <= p.hi);
    let asn_eq = f.asn.map(|a| a == asn);
    match (covers, asn_eq) {
        (None, None) => false,
        (Some(c), None) => c,
        (None, Some(a)) => a,
        (Some(c), Some(a)) => c && a,
    }
}

struct RefBgpsecFilter { ski: Option<[u8; 20]>, asn: Option<u32> }

fn any_bgpsec_filter() -> (BgpsecFilter, RefBgpsecFilter) {
    let ski: Option<[u8; 20]> = kani::any();
    let asn: Option<u32> = kani::any();
    (
        BgpsecFilter::new(ski.map(KeyIdentifier::from),
                          asn.map(Asn::from_u32), None),
        RefBgpsecFilter { ski, asn },
    )
}

fn ref_bgpsec_match(f: &RefBgpsecFilter, ski: &[u8; 20], asn: u32) -> bool {
    let s = f.ski.map(|k| eq20(&k, 0, ski));
    let a = f.asn.map(|a| a == asn);
    match (s, a) {
        (None, None) => false,
        (Some(s), None) => s,
        (None, Some(a)) => a,
        (Some(s), Some(a)) => s && a,
    }
}

fn any_aspa_filter() -> (AspaFilter, Option<u32>) {
    let c: Option<u32> = kani::any();
    (AspaFilter::new(c.map(Asn::from_u32), None), c)
}

struct Filters {
    file: SlurmFile,
    p: [RefPrefixFilter; 2],
    b: [RefBgpsecFilter; 2],
    a: Option<[Option<u32>; 2]>,
}

fn any_filters() -> Filters {
    let (p0, rp0) = any_prefix_filter();
    let (p1, rp1) = any_prefix_filter();
    let (b0, rb0) = any_bgpsec_filter();
    let (b1, rb1) = any_bgpsec_filter();
    let mut f = ValidationOutputFilters::new(vec![p0, p1], vec![b0, b1]);
    let has_aspa: bool = kani::any();
    // The filter lists are public fields: the ASPA list is either part of
    // the value the file is created from or assigned to the file afterwards
    // (solver's choice) -- the drop decision must not depend on which.
    let late: bool = kani::any();
    let (list, a) = if has_aspa {
        let (a0, ra0) = any_aspa_filter();
        let (a1, ra1) = any_aspa_filter();
        (Some(vec![a0, a1]), Some([ra0, ra1]))
    } else {
        (None, None)
    };
    let file = if late {
        let mut file = SlurmFile::new(f, LocallyAddedAssertions::default());
        file.filters.aspa = list;
        file
    } else {
        f.aspa = list;
        SlurmFile::new(f, LocallyAddedAssertions::default())
    };
    Filters { file, p: [rp0, rp1], b: [rb0, rb1], a }
}

/// @tier quick thorough
/// @fn rpki::slurm::SlurmFile::drop_payload rpki::slurm::ValidationOutputFilters::drop_payload
///   rpki::slurm::PrefixFilter::drop_payload rpki::slurm::PrefixFilter::drop_origin
///   rpki::slurm::BgpsecFilter::drop_payload rpki::slurm::AspaFilter::drop_payload
///   rpki::slurm::SlurmFile::new
/// @bounds two prefix, two BGPsec, none-or-two ASPA filters with every
///   present/absent combination of criteria and arbitrary values (prefixes
///   full width, both families); an arbitrary route origin; unwind 23
/// @says a route origin is dropped exactly when one of the prefix filters
///   matches it: prefix filter covers the origin's prefix and/or the AS
///   numbers are equal (both when both are given); filters without criteria
///   and filters of other kinds never cause a drop
#[kani::proof]
#[kani::unwind(23)]
fn drop_origin_iff_prefix_filter_matches() {
    let f = any_filters();
    let (mlp, r, _) = any_maxlen_prefix();
    let asn: u32 = kani::any();
    let payload = rtr::Payload::origin(mlp, Asn::from_u32(asn));
    let expect = ref_prefix_match(&f.p[0], &r, asn)
        || ref_prefix_match(&f.p[1], &r, asn);
    let got = f.file.drop_payload(&payload);
    kani::cover!(got && f.p[0].prefix.is_some() && f.p[0].asn.is_some());
    kani::cover!(got && f.p[0].prefix.is_none() && f.p[1].prefix.is_some()
                 && f.p[1].asn.is_none());
    kani::cover!(!got && f.p[0].prefix.is_some() && f.p[0].asn == Some(asn));
    kani::cover!(!got && f.b[0].asn == Some(asn));
    assert_eq!(got, expect);
    assert_eq!(f.file.filters.drop_payload(&payload), expect);
    std::mem::forget(f.file);
}

/// @tier quick thorough
/// @fn rpki::slurm::SlurmFile::drop_payload rpki::slurm::ValidationOutputFilters::drop_payload
///   rpki::slurm::BgpsecFilter::drop_payload rpki::slurm::BgpsecFilter::drop_router_key
/// @bounds filters as above; a router key with arbitrary 20-byte key
///   identifier and ASN (key info fixed, it is not a criterion); unwind 23
/// @says a router key is dropped exactly when one of the BGPsec filters
///   matches it: key identifier and/or AS number equal (both when both are
///   given); criterion-less filters and prefix/ASPA filters never match
#[kani::proof]
#[kani::unwind(23)]
fn drop_router_key_iff_bgpsec_filter_matches() {
    let f = any_filters();
    let ski: [u8; 20] = kani::any();
    let asn: u32 = kani::any();
    let payload = rtr::Payload::router_key(
        KeyIdentifier::from(ski), Asn::from_u32(asn),
        RouterKeyInfo::new(Bytes::from_static(&[0x30, 0x00])).unwrap());
    let expect = ref_bgpsec_match(&f.b[0], &ski, asn)
        || ref_bgpsec_match(&f.b[1], &ski, asn);
    let got = f.file.drop_payload(&payload);
    kani::cover!(expect && f.b[0].ski.is_some() && f.b[0].asn.is_some());
    kani::cover!(expect && f.b[0].ski.is_none() && f.b[0].asn.is_none());
    kani::cover!(!expect && f.p[0].asn == Some(asn));
    assert_eq!(got, expect);
    std::mem::forget(f.file);
    std::mem::forget(payload);
}

/// @tier quick thorough
/// @fn rpki::slurm::SlurmFile::drop_payload rpki::slurm::ValidationOutputFilters::drop_payload
///   rpki::slurm::AspaFilter::drop_payload rpki::slurm::AspaFilter::drop_aspa
/// @bounds filters as above (ASPA filter list absent or two filters); an
///   ASPA with arbitrary customer and one arbitrary provider; unwind 23
/// @says an ASPA is dropped exactly when an ASPA filter with that customer
///   AS exists; an absent ASPA filter list, criterion-less filters and
///   filters of other kinds never match
#[kani::proof]
#[kani::unwind(23)]
fn drop_aspa_iff_aspa_filter_matches() {
    let f = any_filters();
    let customer: u32 = kani::any();
    let provider: u32 = kani::any();
    let payload = rtr::Payload::aspa(
        Asn::from_u32(customer),
        ProviderAsns::try_from_iter([Asn::from_u32(provider)]).unwrap());
    let expect = match f.a {
        None => false,
        Some(a) => a[0] == Some(customer) || a[1] == Some(customer),
    };
    let got = f.file.drop_payload(&payload);
    kani::cover!(expect);
    kani::cover!(!expect && f.a.is_some());
    kani::cover!(!expect && f.a.is_none() && f.p[0].asn == Some(customer));
    assert_eq!(got, expect);
    std::mem::forget(f.file);
    std::mem::forget(payload);
}

/// @tier quick thorough
/// @fn rpki::slurm::ValidationOutputFilters::drop_payload rpki::slurm::ValidationOutputFilters::new
///   rpki::slurm::SlurmFile::drop_payload
/// @bounds empty filter lists (ASPA list absent or empty); arbitrary payload
///   of each of the three kinds; unwind 23
/// @says a file without filters drops nothing
#[kani::proof]
#[kani::unwind(23)]
fn empty_filters_drop_nothing() {
    let mut filters = ValidationOutputFilters::new(Vec::new(), Vec::new());
    if kani::any() {
        filters.aspa = Some(Vec::new());
    }
    let file = SlurmFile::new(filters, LocallyAddedAssertions::default());
    let (mlp, _, _) = any_maxlen_prefix();
    let asn: u32 = kani::any();
    let ski: [u8; 20] = kani::any();
    let p1 = rtr::Payload::origin(mlp, Asn::from_u32(asn));
    let p2 = rtr::Payload::router_key(
        KeyIdentifier::from(ski), Asn::from_u32(asn),
        RouterKeyInfo::new(Bytes::from_static(&[1])).unwrap());
    let p3 = rtr::Payload::aspa(Asn::from_u32(asn), ProviderAsns::empty());
    kani::cover!(true);
    assert!(!file.drop_payload(&p1));
    assert!(!file.drop_payload(&p2));
    assert!(!file.drop_payload(&p3));
    std::mem::forget((file, p2, p3));
}

/// @tier quick thorough
/// @fn rpki::slurm::PrefixFilter::drop_origin rpki::slurm::BgpsecFilter::drop_router_key
///   rpki::slurm::AspaFilter::drop_aspa rpki::slurm::PrefixFilter::drop_payload
/// @bounds one filter of each kind with arbitrary criteria; one arbitrary
///   payload item of each kind; unwind 23
/// @says the per-filter decision functions agree with the match table of the
///   statement and a filter never matches a payload of another kind
#[kani::proof]
#[kani::unwind(23)]
fn single_filter_decisions() {
    let (pf, rpf) = any_prefix_filter();
    let (bf, rbf) = any_bgpsec_filter();
    let (af, raf) = any_aspa_filter();
    let (mlp, r, _) = any_maxlen_prefix();
    let asn: u32 = kani::any();
    let ski: [u8; 20] = kani::any();
    let origin = RouteOrigin::new(mlp, Asn::from_u32(asn));
    let key = rtr::RouterKey::new(
        KeyIdentifier::from(ski), Asn::from_u32(asn),
        RouterKeyInfo::new(Bytes::from_static(&[1, 2, 3])).unwrap());
    let aspa = rtr::Aspa::new(Asn::from_u32(asn), ProviderAsns::empty());
    kani::cover!(pf.drop_origin(origin));
    kani::cover!(bf.drop_router_key(&key));
    kani::cover!(af.drop_aspa(&aspa));
    assert_eq!(pf.drop_origin(origin), ref_prefix_match(&rpf, &r, asn));
    assert_eq!(bf.drop_router_key(&key), ref_bgpsec_match(&rbf, &ski, asn));
    assert_eq!(af.drop_aspa(&aspa), raf == Some(asn));
    let po = rtr::Payload::Origin(origin);
    let pk = rtr::Payload::RouterKey(key);
    let pa = rtr::Payload::Aspa(aspa);
    assert!(!pf.drop_payload(&pk) && !pf.drop_payload(&pa));
    assert!(!bf.drop_payload(&po) && !bf.drop_payload(&pa));
    assert!(!af.drop_payload(&po) && !af.drop_payload(&pk));
    std::mem::forget((pk, pa));
}

fn assertions_body(heap: bool) {
    let (mlp, _, _) = any_maxlen_prefix();
    let asn1: u32 = kani::any();
    let asn2: u32 = kani::any();
    let ski: [u8; 20] = kani::any();
    let key: [u8; 3] = kani::any();
    let customer: u32 = kani::any();
    let provider: u32 = kani::any();
    let has_aspa: bool = kani::any();
    // `heap` = key info / provider list are heap-backed `Bytes` with
    // arbitrary content (their clone goes through the promotable-vtable
    // machinery of the bytes crate); otherwise static buffers.
    let key_bytes = if heap { Bytes::copy_from_slice(&key) }
                    else { Bytes::from_static(&[7, 8, 9]) };
    let providers = if heap {
        ProviderAsns::try_from_iter([Asn::from_u32(provider)]).unwrap()
    } else {
        ProviderAsns::empty()
    };
    let mut a = LocallyAddedAssertions::new(
        vec![PrefixAssertion::new(mlp, Asn::from_u32(asn1), None)],
        vec![BgpsecAssertion::new(
            Asn::from_u32(asn2), KeyIdentifier::from(ski),
            Base64KeyInfo::try_from(key_bytes).unwrap(), None)],
    );
    if has_aspa {
        a.aspa = Some(vec![AspaAssertion::new(
            Asn::from_u32(customer), providers, None)]);
    }
    let mut it = a.iter_payload();
    kani::cover!(has_aspa);
    kani::cover!(!has_aspa);
    match it.next() {
        Some(rtr::Payload::Origin(o)) => {
            assert!(o.prefix == mlp && o.asn.into_u32() == asn1);
        }
        _ => panic!("first item must be the origin"),
    }
    match it.next() {
        Some(rtr::Payload::RouterKey(k)) => {
            assert!(k.asn.into_u32() == asn2);
            assert!(eq20(k.key_identifier.as_slice(), 0, &ski));
            let ki = k.key_info.as_slice();
            assert!(ki.len() == 3);
            if heap {
                assert!(ki[0] == key[0] && ki[1] == key[1] && ki[2] == key[2]);
            } else {
                assert!(ki[0] == 7 && ki[1] == 8 && ki[2] == 9);
            }
            std::mem::forget(k);
        }
        _ => panic!("second item must be the router key"),
    }
    if has_aspa {
        match it.next() {
            Some(rtr::Payload::Aspa(x)) => {
                assert!(x.customer.into_u32() == customer);
                if heap {
                    assert!(x.providers.asn_count() == 1);
                    assert!(x.providers.iter().next().unwrap().into_u32()
                        == provider);
                } else {
                    assert!(x.providers.is_empty());
                }
                std::mem::forget(x);
            }
            _ => panic!("third item must be the ASPA"),
        }
    }
    assert!(it.next().is_none());
    std::mem::forget(it);
    std::mem::forget(a);
}

/// @tier off
/// @fn rpki::slurm::LocallyAddedAssertions::iter_payload rpki::slurm::PrefixAssertion::to_payload
///   rpki::slurm::BgpsecAssertion::to_payload rpki::slurm::AspaAssertion::to_payload
///   rpki::slurm::LocallyAddedAssertions::new
/// @bounds one prefix assertion (any valid max-length prefix and ASN), one
///   BGPsec assertion (any SKI and ASN, fixed 3-byte key in a static buffer),
///   none or one ASPA assertion (any customer, empty provider list);
///   unwind 4
/// @says iterating the assertions yields, in order, one payload item per
///   assertion carrying exactly the assertion's fields
#[kani::proof]
#[kani::unwind(4)]
fn assertions_yield_their_fields() { assertions_body(false); }

/// @tier off
/// @fn rpki::slurm::LocallyAddedAssertions::iter_payload
///   rpki::slurm::BgpsecAssertion::to_payload rpki::slurm::AspaAssertion::to_payload
/// @bounds as assertions_yield_their_fields but with an arbitrary 3-byte
///   heap-allocated key and one arbitrary provider ASN; unwind 4
/// @says iterating the assertions yields, in order, one payload item per
///   assertion carrying exactly the assertion's fields
#[kani::proof]
#[kani::unwind(4)]
fn assertions_yield_their_fields_heap_t() { assertions_body(true); }

/// @tier quick thorough
/// @fn rpki::slurm::LocallyAddedAssertions::iter_payload rpki::slurm::PrefixAssertion::to_payload
/// @bounds exactly one prefix assertion (any valid max-length prefix, any
///   ASN), no other assertions; unwind 4
/// @says a prefix assertion yields exactly one route origin with its prefix,
///   max length and ASN
#[kani::proof]
#[kani::unwind(4)]
fn prefix_assertion_yields_origin() {
    let (mlp, _, _) = any_maxlen_prefix();
    let asn1: u32 = kani::any();
    let a = LocallyAddedAssertions::new(
        vec![PrefixAssertion::new(mlp, Asn::from_u32(asn1), None)],
        Vec::new(),
    );
    let mut it = a.iter_payload();
    kani::cover!(true);
    match it.next() {
        Some(rtr::Payload::Origin(o)) => {
            assert!(o.prefix == mlp && o.asn.into_u32() == asn1);
        }
        _ => panic!("first item must be the origin"),
    }
    assert!(it.next().is_none());
    std::mem::forget(it);
    std::mem::forget(a);
}

/// @tier quick thorough
/// @fn rpki::slurm::LocallyAddedAssertions::iter_payload rpki::slurm::BgpsecAssertion::to_payload
/// @bounds exactly one BGPsec assertion (any SKI, any ASN, key info a fixed
///   3-byte static buffer), no other assertions; unwind 4
/// @says a BGPsec assertion yields exactly one router key with its SKI, ASN
///   and key
#[kani::proof]
#[kani::unwind(4)]
fn bgpsec_assertion_yields_router_key() {
    let asn2: u32 = kani::any();
    let ski: [u8; 20] = kani::any();
    let a = LocallyAddedAssertions::new(
        Vec::new(),
        vec![BgpsecAssertion::new(
            Asn::from_u32(asn2), KeyIdentifier::from(ski),
            Base64KeyInfo::try_from(Bytes::from_static(&[7, 8, 9])).unwrap(),
            None)],
    );
    let mut it = a.iter_payload();
    kani::cover!(true);
    match it.next() {
        Some(rtr::Payload::RouterKey(k)) => {
            assert!(k.asn.into_u32() == asn2);
            assert!(eq20(k.key_identifier.as_slice(), 0, &ski));
            let ki = k.key_info.as_slice();
            assert!(ki.len() == 3 && ki[0] == 7 && ki[1] == 8 && ki[2] == 9);
            std::mem::forget(k);
        }
        _ => panic!("item must be the router key"),
    }
    assert!(it.next().is_none());
    std::mem::forget(it);
    std::mem::forget(a);
}

/// @tier quick thorough
/// @fn rpki::slurm::LocallyAddedAssertions::iter_payload rpki::slurm::AspaAssertion::to_payload
/// @bounds exactly one ASPA assertion (any customer, one arbitrary
///   provider), no other assertions; unwind 4
/// @says an ASPA assertion yields exactly one ASPA with its customer and
///   providers
#[kani::proof]
#[kani::unwind(4)]
fn aspa_assertion_yields_aspa() {
    let customer: u32 = kani::any();
    let provider: u32 = kani::any();
    let mut a = LocallyAddedAssertions::new(Vec::new(), Vec::new());
    a.aspa = Some(vec![AspaAssertion::new(
        Asn::from_u32(customer),
        ProviderAsns::try_from_iter([Asn::from_u32(provider)]).unwrap(),
        None)]);
    let mut it = a.iter_payload();
    kani::cover!(true);
    match it.next() {
        Some(rtr::Payload::Aspa(x)) => {
            assert!(x.customer.into_u32() == customer);
            assert!(x.providers.asn_count() == 1);
            assert!(x.providers.iter().next().unwrap().into_u32()
                == provider);
            std::mem::forget(x);
        }
        _ => panic!("item must be the ASPA"),
    }
    assert!(it.next().is_none());
    std::mem::forget(it);
    std::mem::forget(a);
}
