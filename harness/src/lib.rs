//! Kani proof harnesses over the real rpki-rs code (path dependency on /repo).
//! One module per property; see /verif/DESIGN.md.
#![allow(dead_code, unused_imports, clippy::all)]
#![cfg_attr(kani, feature(allocator_api))]

#[cfg(kani)]
pub mod util;

#[cfg(kani)]
mod c04;
#[cfg(kani)]
mod c05;
#[cfg(kani)]
mod c07;
#[cfg(kani)]
mod c08;
#[cfg(kani)]
mod c12;
#[cfg(kani)]
mod c13;
#[cfg(kani)]
mod c15;
#[cfg(kani)]
mod c16;
#[cfg(kani)]
mod probe;
#[cfg(kani)]
mod c17;
#[cfg(kani)]
mod c02;
#[cfg(kani)]
mod c03;
#[cfg(kani)]
mod c09;
#[cfg(kani)]
mod c14;
