// property C16, harness c16::cmp_antisymmetric
// failed: assertion failed: ab == ba.map(Ordering::reverse) @ src/c16.rs
// native replay: dev: panic: src/c16.rs:55:5: assertion `left == right` failed; release: panic: src/c16.rs:55:5: assertion `left == right` failed
// run: cd /verif && ./replay /verif/replays/C16-cmp_antisymmetric.rs
/// Test generated for harness `c16::cmp_antisymmetric` 
///
/// Check for `assertion`: "assertion failed: ab == ba.map(Ordering::reverse)"

#[test]
fn kani_concrete_playback_cmp_antisymmetric_5232183442417043746() {
    let concrete_vals: Vec<Vec<u8>> = vec![
        // 1073741824
        vec![0, 0, 0, 64],
        // 3221225473
        vec![1, 0, 0, 192],
    ];
    kani::concrete_playback_run(concrete_vals, cmp_antisymmetric);
}
