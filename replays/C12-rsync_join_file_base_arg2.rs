// property C12, harness c12::rsync_join_file_base_arg2
// failed: assertion failed: rel.len() == s.len() - 12 && base[10] == b'm' @ src/c12.rs
