// property C07, harness c07::error_skip_payload_terminates
// failed: reader spins on a closed stream @ src/util.rs
