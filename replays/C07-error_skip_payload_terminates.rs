// property C07, harness c07::error_skip_payload_terminates
// failed: reader spins on a closed stream @ src/util.rs
// native replay: dev: panic: src/util.rs:156:21: reader spins on a closed stream; release: panic: src/util.rs:156:21: reader spins on a closed stream
// run: cd /verif && ./replay /verif/replays/C07-error_skip_payload_terminates.rs
/// Test generated for harness `c07::error_skip_payload_terminates` 
///
/// Check for `assertion`: "reader spins on a closed stream"

#[test]
fn kani_concrete_playback_error_skip_payload_terminates_8588676520060135155() {
    let concrete_vals: Vec<Vec<u8>> = vec![
        // 255
        vec![255],
        // 255
        vec![255],
        // 255
        vec![255],
        // 255
        vec![255],
        // 255
        vec![255],
        // 255
        vec![255],
        // 255
        vec![255],
        // 255
        vec![255],
        // 255
        vec![255],
        // 255
        vec![255],
        // 255
        vec![255],
        // 255
        vec![255],
        // 255
        vec![255],
        // 255
        vec![255],
        // 255
        vec![255],
        // 255
        vec![255],
        // 255
        vec![255],
        // 255
        vec![255],
        // 255
        vec![255],
        // 255
        vec![255],
        // 255
        vec![255],
        // 255
        vec![255],
        // 255
        vec![255],
        // 255
        vec![255],
        // 0ul
        vec![0, 0, 0, 0, 0, 0, 0, 0],
    ];
    kani::concrete_playback_run(concrete_vals, error_skip_payload_terminates);
}
