// property C14, harness c14::file_name_len4
// failed: assertion failed: !got || want @ src/c14.rs
// native replay: dev: panic: src/c14.rs:59:9: assertion failed: !got || want; release: panic: src/c14.rs:59:9: assertion failed: !got || want
// run: cd /verif && ./replay /verif/replays/C14-file_name_len4.rs
/// Test generated for harness `c14::file_name_len4` 
///
/// Check for `assertion`: "assertion failed: !got || want"

#[test]
fn kani_concrete_playback_file_name_len4_6279733150186854770() {
    let concrete_vals: Vec<Vec<u8>> = vec![
        // 46
        vec![46],
        // 97
        vec![97],
        // 97
        vec![97],
        // 33
        vec![33],
    ];
    kani::concrete_playback_run(concrete_vals, file_name_len4);
}
