// property C03, harness c03::as_block_from_str_ordered
// failed: assertion failed: as_text("AS5-AS3").is_none() @ src/c03.rs
// native replay: dev: panic: src/c03.rs:662:5: assertion failed: as_text("AS5-AS3").is_none(); release: panic: src/c03.rs:662:5: assertion failed: as_text("AS5-AS3").is_none()
// run: cd /verif && ./replay /verif/replays/C03-as_block_from_str_ordered.rs
/// Test generated for harness `c03::as_block_from_str_ordered` 
///
/// Check for `cover`: "cover condition: true"

#[test]
fn kani_concrete_playback_as_block_from_str_ordered_4919177610446946365() {
    let concrete_vals: Vec<Vec<u8>> = vec![
    ];
    kani::concrete_playback_run(concrete_vals, as_block_from_str_ordered);
}
