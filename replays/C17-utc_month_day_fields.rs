// property C17, harness c17::utc_month_day_fields
// failed: assertion failed: res.is_ok() == valid @ src/c17.rs
