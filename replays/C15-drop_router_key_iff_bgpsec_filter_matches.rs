// property C15, harness c15::drop_router_key_iff_bgpsec_filter_matches
// failed: assertion failed: got == expect @ src/c15.rs
// native replay: dev: panic: src/c15.rs:153:5: assertion `left == right` failed; release: panic: src/c15.rs:153:5: assertion `left == right` failed
// run: cd /verif && ./replay /verif/replays/C15-drop_router_key_iff_bgpsec_filter_matches.rs
/// Test generated for harness `c15::drop_router_key_iff_bgpsec_filter_matches` 
///
/// Check for `assertion`: "assertion failed: got == expect"

#[test]
fn kani_concrete_playback_drop_router_key_iff_bgpsec_filter_matches_18118383457381017482() {
    let concrete_vals: Vec<Vec<u8>> = vec![
        // 0
        vec![0],
        // 12
        vec![12],
        // 340199290171201906221318119490500689919
        vec![255, 255, 255, 255, 255, 255, 255, 255, 255, 255, 255, 255, 255, 255, 239, 255],
        // 0
        vec![0],
        // 1
        vec![1],
        // 0
        vec![0, 0, 0, 0],
        // 0
        vec![0],
        // 4
        vec![4],
        // 276479423123262501563991868538311671807
        vec![255, 255, 255, 255, 255, 255, 255, 255, 255, 255, 255, 255, 255, 255, 255, 207],
        // 1
        vec![1],
        // 1
        vec![1],
        // 4294967295
        vec![255, 255, 255, 255],
        // 0
        vec![0],
        // 0
        vec![0],
        // 1
        vec![1],
        // 128
        vec![128],
        // 127
        vec![127],
        // 191
        vec![191],
        // 128
        vec![128],
        // 0
        vec![0],
        // 0
        vec![0],
        // 0
        vec![0],
        // 0
        vec![0],
        // 0
        vec![0],
        // 0
        vec![0],
        // 0
        vec![0],
        // 0
        vec![0],
        // 1
        vec![1],
        // 0
        vec![0],
        // 0
        vec![0],
        // 0
        vec![0],
        // 1
        vec![1],
        // 0
        vec![0],
        // 128
        vec![128],
        // 123
        vec![123],
        // 1
        vec![1],
        // 4294967295
        vec![255, 255, 255, 255],
        // 1
        vec![1],
        // 1
        vec![1],
        // 4294967295
        vec![255, 255, 255, 255],
        // 1
        vec![1],
        // 4294967295
        vec![255, 255, 255, 255],
        // 43
        vec![43],
        // 127
        vec![127],
        // 191
        vec![191],
        // 43
        vec![43],
        // 0
        vec![0],
        // 0
        vec![0],
        // 0
        vec![0],
        // 0
        vec![0],
        // 0
        vec![0],
        // 0
        vec![0],
        // 0
        vec![0],
        // 0
        vec![0],
        // 0
        vec![0],
        // 0
        vec![0],
        // 0
        vec![0],
        // 255
        vec![255],
        // 0
        vec![0],
        // 0
        vec![0],
        // 41
        vec![41],
        // 127
        vec![127],
        // 4294967295
        vec![255, 255, 255, 255],
    ];
    kani::concrete_playback_run(concrete_vals, drop_router_key_iff_bgpsec_filter_matches);
}
