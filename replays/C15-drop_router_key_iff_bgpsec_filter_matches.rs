// property C15, harness c15::drop_router_key_iff_bgpsec_filter_matches
// failed: assertion failed: got == expect @ src/c15.rs
