// property C03, harness c03::collect_sorted_2
// failed: assertion failed: canonical(s) @ src/c03.rs
// native replay: dev: panic: src/c03.rs:843:5: assertion failed: canonical(s); release: panic: src/c03.rs:843:5: assertion failed: canonical(s)
// run: cd /verif && ./replay /verif/replays/C03-collect_sorted_2.rs
/// Test generated for harness `c03::collect_sorted_2` 
///
/// Check for `assertion`: "assertion failed: canonical(s)"
///
/// # Warning
///
/// Concrete playback tests combined with stubs or contracts is highly
/// experimental, and subject to change.
///
/// The original harness has stubs which are not applied to this test.
/// This may cause a mismatch of non-deterministic values if the stub
/// creates any non-deterministic value.
/// The execution path may also differ, which can be used to refine the stub
/// logic.

#[test]
fn kani_concrete_playback_collect_sorted_2_16950101597227168350() {
    let concrete_vals: Vec<Vec<u8>> = vec![
        // 5
        vec![5],
        // 255
        vec![255],
        // 5
        vec![5],
        // 6
        vec![6],
        // 4
        vec![4],
    ];
    kani::concrete_playback_run(concrete_vals, collect_sorted_2);
}
