// property C12, harness c12::https_join_pathless_base
// failed: assertion failed: ref_path_idx(s) == 8 + alen @ src/c12.rs
// native replay: dev: panic: src/c12.rs:753:9: assertion failed: ref_path_idx(s) == 8 + alen; release: panic: src/c12.rs:753:9: assertion failed: ref_path_idx(s) == 8 + alen
// run: cd /verif && ./replay /verif/replays/C12-https_join_pathless_base.rs
/// Test generated for harness `c12::https_join_pathless_base` 
///
/// Check for `cover`: "cover condition: res.is_ok()"

#[test]
fn kani_concrete_playback_https_join_pathless_base_17746951156340055762() {
    let concrete_vals: Vec<Vec<u8>> = vec![
        // 33
        vec![33],
        // 33
        vec![33],
    ];
    kani::concrete_playback_run(concrete_vals, https_join_pathless_base);
}
