// property C14, harness c14::file_name_len6
// failed: assertion failed: got == want @ src/c14.rs
// native replay: dev: panic: src/c14.rs:54:9: assertion `left == right` failed; release: panic: src/c14.rs:54:9: assertion `left == right` failed
// run: cd /verif && ./replay /verif/replays/C14-file_name_len6.rs
/// Test generated for harness `c14::file_name_len6` 
///
/// Check for `assertion`: "assertion failed: got == want"

#[test]
fn kani_concrete_playback_file_name_len6_17175448431638722014() {
    let concrete_vals: Vec<Vec<u8>> = vec![
        // 95
        vec![95],
        // 56
        vec![56],
        // 46
        vec![46],
        // 106
        vec![106],
        // 107
        vec![107],
        // 96
        vec![96],
    ];
    kani::concrete_playback_run(concrete_vals, file_name_len6);
}
