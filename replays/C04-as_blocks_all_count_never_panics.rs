// property C04, harness c04::as_blocks_all_count_never_panics
// failed: attempt to add with overflow @ /repo/src/repository/resources/asres.rs
// native replay: dev: panic: /repo/src/repository/resources/asres.rs:954:9: attempt to add with overflow; release: panic: /repo/src/repository/resources/asres.rs:954:9: attempt to add with overflow
// run: cd /verif && ./replay /verif/replays/C04-as_blocks_all_count_never_panics.rs
/// Test generated for harness `c04::as_blocks_all_count_never_panics` 
///
/// Check for `assertion`: "attempt to add with overflow"

#[test]
fn kani_concrete_playback_as_blocks_all_count_never_panics_4995446505482968915() {
    let concrete_vals: Vec<Vec<u8>> = vec![
    ];
    kani::concrete_playback_run(concrete_vals, as_blocks_all_count_never_panics);
}
