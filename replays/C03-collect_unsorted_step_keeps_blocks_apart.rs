// property C03, harness c03::collect_unsorted_step_keeps_blocks_apart
// failed: assertion failed: non_touching(&res) @ src/c03.rs
// native replay: dev: panic: src/c03.rs:954:5: assertion failed: non_touching(&res); release: panic: src/c03.rs:954:5: assertion failed: non_touching(&res)
// run: cd /verif && ./replay /verif/replays/C03-collect_unsorted_step_keeps_blocks_apart.rs
/// Test generated for harness `c03::collect_unsorted_step_keeps_blocks_apart` 
///
/// Check for `assertion`: "assertion failed: non_touching(&res)"

#[test]
fn kani_concrete_playback_collect_unsorted_step_keeps_blocks_apart_3571715261657280461() {
    let concrete_vals: Vec<Vec<u8>> = vec![
        // 5
        vec![5],
        // 6
        vec![6],
        // 10
        vec![10],
        // 65
        vec![65],
        // 7
        vec![7],
        // 64
        vec![64],
        // 72
        vec![72],
    ];
    kani::concrete_playback_run(concrete_vals, collect_unsorted_step_keeps_blocks_apart);
}
