// property C16, harness c16::cmp_depends_only_on_difference
// failed: assertion failed: x == y @ src/c16.rs
// native replay: dev: panic: src/c16.rs:76:5: assertion `left == right` failed; release: panic: src/c16.rs:76:5: assertion `left == right` failed
// run: cd /verif && ./replay /verif/replays/C16-cmp_depends_only_on_difference.rs
/// Test generated for harness `c16::cmp_depends_only_on_difference` 
///
/// Check for `assertion`: "assertion failed: x == y"

#[test]
fn kani_concrete_playback_cmp_depends_only_on_difference_5439018970880025268() {
    let concrete_vals: Vec<Vec<u8>> = vec![
        // 0
        vec![0, 0, 0, 0],
        // 3489660928
        vec![0, 0, 0, 208],
        // 2147483647
        vec![255, 255, 255, 127],
    ];
    kani::concrete_playback_run(concrete_vals, cmp_depends_only_on_difference);
}
