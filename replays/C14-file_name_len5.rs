// property C14, harness c14::file_name_len5
// failed: assertion failed: got == want @ src/c14.rs
// native replay: dev: panic: src/c14.rs:54:9: assertion `left == right` failed; release: panic: src/c14.rs:54:9: assertion `left == right` failed
// run: cd /verif && ./replay /verif/replays/C14-file_name_len5.rs
/// Test generated for harness `c14::file_name_len5` 
///
/// Check for `assertion`: "assertion failed: got == want"

#[test]
fn kani_concrete_playback_file_name_len5_14284758569358379711() {
    let concrete_vals: Vec<Vec<u8>> = vec![
        // 45
        vec![45],
        // 46
        vec![46],
        // 107
        vec![107],
        // 107
        vec![107],
        // 95
        vec![95],
    ];
    kani::concrete_playback_run(concrete_vals, file_name_len5);
}
