// property C12, harness c12::rsync_eq_hash_len6
// failed: assertion failed: x == y == want @ src/c12.rs
// native replay: dev: panic: src/c12.rs:345:5: assertion `left == right` failed; release: panic: src/c12.rs:345:5: assertion `left == right` failed
// run: cd /verif && ./replay /verif/replays/C12-rsync_eq_hash_len6.rs
/// Test generated for harness `c12::rsync_eq_hash_len6` 
///
/// Check for `assertion`: "assertion failed: x == y == want"

#[test]
fn kani_concrete_playback_rsync_eq_hash_len6_18189529775192815182() {
    let concrete_vals: Vec<Vec<u8>> = vec![
        // 89
        vec![89],
        // 86
        vec![86],
        // 47
        vec![47],
        // 79
        vec![79],
        // 118
        vec![118],
        // 47
        vec![47],
        // 89
        vec![89],
        // 86
        vec![86],
        // 47
        vec![47],
        // 79
        vec![79],
        // 86
        vec![86],
        // 47
        vec![47],
    ];
    kani::concrete_playback_run(concrete_vals, rsync_eq_hash_len6);
}
