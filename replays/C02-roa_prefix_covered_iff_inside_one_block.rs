// property C02, harness c02::roa_prefix_covered_iff_inside_one_block
// failed: assertion failed: got == want @ src/c02.rs
// native replay: dev: panic: src/c02.rs:145:5: assertion `left == right` failed; release: panic: src/c02.rs:145:5: assertion `left == right` failed
// run: cd /verif && ./replay /verif/replays/C02-roa_prefix_covered_iff_inside_one_block.rs
/// Test generated for harness `c02::roa_prefix_covered_iff_inside_one_block` 
///
/// Check for `assertion`: "assertion failed: got == want"

#[test]
fn kani_concrete_playback_roa_prefix_covered_iff_inside_one_block_7602487224524389194() {
    let concrete_vals: Vec<Vec<u8>> = vec![
        // 35878771292475658913145729634910863360
        vec![0, 0, 0, 0, 0, 0, 0, 0, 0, 0, 0, 0, 0, 0, 254, 26],
        // 35889155886192728568402790627569303551
        vec![255, 255, 255, 255, 255, 255, 255, 255, 255, 255, 255, 255, 255, 255, 255, 26],
        // 39876839873547476187114211808410337278
        vec![254, 255, 255, 255, 255, 255, 255, 255, 255, 255, 255, 255, 255, 255, 255, 29],
        // 167482727468899399985879689595323416575
        vec![255, 255, 255, 255, 255, 255, 255, 255, 255, 255, 255, 255, 255, 255, 255, 125],
        // 35889155886192728568402790627569303551
        vec![255, 255, 255, 255, 255, 255, 255, 255, 255, 255, 255, 255, 255, 255, 255, 26],
        // 12
        vec![12],
    ];
    kani::concrete_playback_run(concrete_vals, roa_prefix_covered_iff_inside_one_block);
}
