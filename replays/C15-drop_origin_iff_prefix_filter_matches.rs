// property C15, harness c15::drop_origin_iff_prefix_filter_matches
// failed: assertion failed: got == expect @ src/c15.rs
// native replay: dev: panic: src/c15.rs:125:5: assertion `left == right` failed; release: panic: src/c15.rs:125:5: assertion `left == right` failed
// run: cd /verif && ./replay /verif/replays/C15-drop_origin_iff_prefix_filter_matches.rs
/// Test generated for harness `c15::drop_origin_iff_prefix_filter_matches` 
///
/// Check for `assertion`: "assertion failed: got == expect"

#[test]
fn kani_concrete_playback_drop_origin_iff_prefix_filter_matches_12710158312629103085() {
    let concrete_vals: Vec<Vec<u8>> = vec![
        // 0
        vec![0],
        // 0
        vec![0],
        // 20282409603651670423947251286016
        vec![0, 0, 0, 0, 0, 0, 0, 0, 0, 0, 0, 0, 0, 1, 0, 0],
        // 0
        vec![0],
        // 0
        vec![0],
        // 0
        vec![0],
        // 4
        vec![4],
        // 0
        vec![0, 0, 0, 0, 0, 0, 0, 0, 0, 0, 0, 0, 0, 0, 0, 0],
        // 1
        vec![1],
        // 1
        vec![1],
        // 3
        vec![3, 0, 0, 0],
        // 0
        vec![0],
        // 0
        vec![0],
        // 0
        vec![0],
        // 0
        vec![0],
        // 0
        vec![0],
        // 1
        vec![1],
        // 8
        vec![8],
        // 2281701376
        vec![0, 0, 0, 136],
        // 0
        vec![0],
        // 3
        vec![3, 0, 0, 0],
    ];
    kani::concrete_playback_run(concrete_vals, drop_origin_iff_prefix_filter_matches);
}
