// property C04, harness c04::as_block_count_never_panics
// failed: attempt to add with overflow @ /repo/src/repository/resources/asres.rs
// native replay: dev: panic: /repo/src/repository/resources/asres.rs:954:9: attempt to add with overflow; release: panic: /repo/src/repository/resources/asres.rs:954:9: attempt to add with overflow
// run: cd /verif && ./replay /verif/replays/C04-as_block_count_never_panics.rs
/// Test generated for harness `c04::as_block_count_never_panics` 
///
/// Check for `assertion`: "attempt to add with overflow"

#[test]
fn kani_concrete_playback_as_block_count_never_panics_15936639068618866262() {
    let concrete_vals: Vec<Vec<u8>> = vec![
        // 0
        vec![0, 0, 0, 0],
        // 4294967295
        vec![255, 255, 255, 255],
    ];
    kani::concrete_playback_run(concrete_vals, as_block_count_never_panics);
}
