// property C13, harness c13::asn_set_collect_len2
// failed: "set iterator not strictly ascending" @ src/c13.rs
// native replay: dev: panic: src/c13.rs:387:13: set iterator not strictly ascending; release: panic: src/c13.rs:387:13: set iterator not strictly ascending
// run: cd /verif && ./replay /verif/replays/C13-asn_set_collect_len2.rs
/// Test generated for harness `c13::asn_set_collect_len2` 
///
/// Check for `assertion`: ""set iterator not strictly ascending""

#[test]
fn kani_concrete_playback_asn_set_collect_len2_4093204768411610771() {
    let concrete_vals: Vec<Vec<u8>> = vec![
        // 4294967295
        vec![255, 255, 255, 255],
        // 4294967295
        vec![255, 255, 255, 255],
        // 4294967295
        vec![255, 255, 255, 255],
    ];
    kani::concrete_playback_run(concrete_vals, asn_set_collect_len2);
}
