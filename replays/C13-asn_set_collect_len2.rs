// property C13, harness c13::asn_set_collect_len2
// failed: "set iterator not strictly ascending" @ src/c13.rs
