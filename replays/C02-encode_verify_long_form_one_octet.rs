// property C02, harness c02::encode_verify_long_form_one_octet
// failed: assertion failed: out.len() == 1 + ll + N @ src/c02.rs
// native replay: dev: panic: src/c02.rs:38:5: assertion failed: out.len() == 1 + ll + N; release: panic: src/c02.rs:38:5: assertion failed: out.len() == 1 + ll + N
// run: cd /verif && ./replay /verif/replays/C02-encode_verify_long_form_one_octet.rs
/// Test generated for harness `c02::encode_verify_long_form_one_octet` 
///
/// Check for `assertion`: "assertion failed: out.len() == 1 + ll + N"

#[test]
fn kani_concrete_playback_encode_verify_long_form_one_octet_17124419295349579911() {
    let concrete_vals: Vec<Vec<u8>> = vec![
        // 0ul
        vec![0, 0, 0, 0, 0, 0, 0, 0],
    ];
    kani::concrete_playback_run(concrete_vals, encode_verify_long_form_one_octet);
}
