// property C15, harness c15::drop_aspa_iff_aspa_filter_matches
// failed: assertion failed: got == expect @ src/c15.rs
// native replay: dev: panic: src/c15.rs:183:5: assertion `left == right` failed; release: panic: src/c15.rs:183:5: assertion `left == right` failed
// run: cd /verif && ./check C15 --replay /verif/replays/C15-drop_aspa_iff_aspa_filter_matches.rs
/// Test generated for harness `c15::drop_aspa_iff_aspa_filter_matches` 
///
/// Check for `assertion`: "assertion failed: got == expect"

#[test]
fn kani_concrete_playback_drop_aspa_iff_aspa_filter_matches_10388768479694153973() {
    let concrete_vals: Vec<Vec<u8>> = vec![
        // 1
        vec![1],
        // 32
        vec![32],
        // 4294967295
        vec![255, 255, 255, 255],
        // 1
        vec![1],
        // 1
        vec![1],
        // 4294967295
        vec![255, 255, 255, 255],
        // 1
        vec![1],
        // 32
        vec![32],
        // 4294967295
        vec![255, 255, 255, 255],
        // 1
        vec![1],
        // 1
        vec![1],
        // 4294967295
        vec![255, 255, 255, 255],
        // 1
        vec![1],
        // 255
        vec![255],
        // 255
        vec![255],
        // 255
        vec![255],
        // 255
        vec![255],
        // 255
        vec![255],
        // 255
        vec![255],
        // 255
        vec![255],
        // 255
        vec![255],
        // 255
        vec![255],
        // 255
        vec![255],
        // 255
        vec![255],
        // 255
        vec![255],
        // 255
        vec![255],
        // 255
        vec![255],
        // 255
        vec![255],
        // 255
        vec![255],
        // 255
        vec![255],
        // 255
        vec![255],
        // 255
        vec![255],
        // 255
        vec![255],
        // 1
        vec![1],
        // 4294967295
        vec![255, 255, 255, 255],
        // 1
        vec![1],
        // 255
        vec![255],
        // 255
        vec![255],
        // 255
        vec![255],
        // 255
        vec![255],
        // 255
        vec![255],
        // 255
        vec![255],
        // 255
        vec![255],
        // 255
        vec![255],
        // 255
        vec![255],
        // 255
        vec![255],
        // 255
        vec![255],
        // 255
        vec![255],
        // 255
        vec![255],
        // 255
        vec![255],
        // 255
        vec![255],
        // 255
        vec![255],
        // 255
        vec![255],
        // 255
        vec![255],
        // 255
        vec![255],
        // 255
        vec![255],
        // 1
        vec![1],
        // 4294967295
        vec![255, 255, 255, 255],
        // 1
        vec![1],
        // 1
        vec![1],
        // 4294967295
        vec![255, 255, 255, 255],
        // 1
        vec![1],
        // 4294967295
        vec![255, 255, 255, 255],
        // 4294967295
        vec![255, 255, 255, 255],
        // 4294967295
        vec![255, 255, 255, 255],
    ];
    kani::concrete_playback_run(concrete_vals, drop_aspa_iff_aspa_filter_matches);
}
