// property C17, harness c17::serial_der_minimal_encoding
// failed: assertion failed: s.encoded_len(Mode::Der) == n @ src/c17.rs
// native replay: dev: panic: src/c17.rs:539:5: assertion `left == right` failed; release: panic: src/c17.rs:539:5: assertion `left == right` failed
// run: cd /verif && ./replay /verif/replays/C17-serial_der_minimal_encoding.rs
/// Test generated for harness `c17::serial_der_minimal_encoding` 
///
/// Check for `assertion`: "assertion failed: s.encoded_len(Mode::Der) == n"

#[test]
fn kani_concrete_playback_serial_der_minimal_encoding_7756251355574633503() {
    let concrete_vals: Vec<Vec<u8>> = vec![
        // 0
        vec![0],
        // 0
        vec![0],
        // 0
        vec![0],
        // 0
        vec![0],
        // 0
        vec![0],
        // 0
        vec![0],
        // 0
        vec![0],
        // 0
        vec![0],
        // 0
        vec![0],
        // 0
        vec![0],
        // 0
        vec![0],
        // 0
        vec![0],
        // 0
        vec![0],
        // 0
        vec![0],
        // 128
        vec![128],
        // 0
        vec![0],
        // 0
        vec![0],
        // 0
        vec![0],
        // 0
        vec![0],
        // 0
        vec![0],
    ];
    kani::concrete_playback_run(concrete_vals, serial_der_minimal_encoding);
}
