// property C07, harness c07::end_of_data_unknown_version_refused
// failed: assertion failed: !bad @ src/c07.rs
// native replay: dev: panic: src/c07.rs:812:5: assertion failed: !bad; release: panic: src/c07.rs:812:5: assertion failed: !bad
// run: cd /verif && ./replay /verif/replays/C07-end_of_data_unknown_version_refused.rs
/// Test generated for harness `c07::end_of_data_unknown_version_refused` 
///
/// Check for `assertion`: "assertion failed: !bad"

#[test]
fn kani_concrete_playback_end_of_data_unknown_version_refused_14279938977547120870() {
    let concrete_vals: Vec<Vec<u8>> = vec![
        // 0
        vec![0],
        // 0
        vec![0],
        // 0
        vec![0],
        // 0
        vec![0],
        // 0
        vec![0],
        // 0
        vec![0],
        // 0
        vec![0],
        // 0
        vec![0],
        // 0
        vec![0],
        // 0
        vec![0],
        // 0
        vec![0],
        // 0
        vec![0],
        // 0
        vec![0],
        // 0
        vec![0],
        // 0
        vec![0],
        // 0
        vec![0],
    ];
    kani::concrete_playback_run(concrete_vals, end_of_data_unknown_version_refused);
}
