// property C13, harness c13::covers_iff_range_included
// failed: assertion failed: a.covers(b) == expect @ src/c13.rs
// native replay: dev: panic: src/c13.rs:156:5: assertion `left == right` failed; release: panic: src/c13.rs:156:5: assertion `left == right` failed
// run: cd /verif && ./replay /verif/replays/C13-covers_iff_range_included.rs
/// Test generated for harness `c13::covers_iff_range_included` 
///
/// Check for `cover`: "cover condition: ra.len == 0 && rb.len == 128 && !ra.v4 && !rb.v4"

#[test]
fn kani_concrete_playback_covers_iff_range_included_1034259489906708826() {
    let concrete_vals: Vec<Vec<u8>> = vec![
        // 0
        vec![0],
        // 0
        vec![0],
        // 170141183460469231731687303715884105727
        vec![255, 255, 255, 255, 255, 255, 255, 255, 255, 255, 255, 255, 255, 255, 255, 127],
        // 0
        vec![0],
        // 128
        vec![128],
        // 297747071055821155530452781502797185024
        vec![0, 0, 0, 0, 0, 0, 0, 0, 0, 0, 0, 0, 0, 0, 0, 224],
    ];
    kani::concrete_playback_run(concrete_vals, covers_iff_range_included);
}
