// property C16, harness c16::cmp_matches_rfc1982
// failed: assertion failed: got == reference(a, b) @ src/c16.rs
// native replay: dev: panic: src/c16.rs:38:5: assertion `left == right` failed; release: panic: src/c16.rs:38:5: assertion `left == right` failed
// run: cd /verif && ./replay /verif/replays/C16-cmp_matches_rfc1982.rs
/// Test generated for harness `c16::cmp_matches_rfc1982` 
///
/// Check for `assertion`: "assertion failed: got == reference(a, b)"

#[test]
fn kani_concrete_playback_cmp_matches_rfc1982_6269238669385987234() {
    let concrete_vals: Vec<Vec<u8>> = vec![
        // 3221225472
        vec![0, 0, 0, 192],
        // 1073741823
        vec![255, 255, 255, 63],
    ];
    kani::concrete_playback_run(concrete_vals, cmp_matches_rfc1982);
}
