// property C15, harness c15::single_filter_decisions
// failed: assertion failed: pf.drop_origin(origin) == ref_prefix_match(&rpf, &r, asn) @ src/c15.rs; assertion failed: bf.drop_router_key(&key) == ref_bgpsec_match(&rbf, &ski, asn) @ src/c15.rs
// native replay: dev: panic: src/c15.rs:241:5: assertion `left == right` failed; release: panic: src/c15.rs:241:5: assertion `left == right` failed
// run: cd /verif && ./replay /verif/replays/C15-single_filter_decisions.rs
/// Test generated for harness `c15::single_filter_decisions` 
///
/// Check for `assertion`: "assertion failed: pf.drop_origin(origin) == ref_prefix_match(&rpf, &r, asn)"

#[test]
fn kani_concrete_playback_single_filter_decisions_16890983830157660014() {
    let concrete_vals: Vec<Vec<u8>> = vec![
        // 0
        vec![0],
        // 128
        vec![128],
        // 85070591651006453351579314268693069823
        vec![255, 255, 255, 255, 0, 0, 0, 0, 0, 0, 0, 0, 255, 255, 255, 63],
        // 1
        vec![1],
        // 1
        vec![1],
        // 4294967295
        vec![255, 255, 255, 255],
        // 1
        vec![1],
        // 64
        vec![64],
        // 223
        vec![223],
        // 128
        vec![128],
        // 3
        vec![3],
        // 254
        vec![254],
        // 254
        vec![254],
        // 254
        vec![254],
        // 254
        vec![254],
        // 254
        vec![254],
        // 254
        vec![254],
        // 254
        vec![254],
        // 254
        vec![254],
        // 254
        vec![254],
        // 254
        vec![254],
        // 254
        vec![254],
        // 254
        vec![254],
        // 254
        vec![254],
        // 250
        vec![250],
        // 148
        vec![148],
        // 125
        vec![125],
        // 1
        vec![1],
        // 4294967295
        vec![255, 255, 255, 255],
        // 1
        vec![1],
        // 3
        vec![3, 0, 0, 0],
        // 0
        vec![0],
        // 128
        vec![128],
        // 159507359414961742234192509644392366079
        vec![255, 255, 255, 255, 0, 0, 0, 0, 0, 0, 0, 0, 255, 255, 255, 119],
        // 1
        vec![1],
        // 128
        vec![128],
        // 4294967295
        vec![255, 255, 255, 255],
        // 64
        vec![64],
        // 223
        vec![223],
        // 128
        vec![128],
        // 3
        vec![3],
        // 254
        vec![254],
        // 254
        vec![254],
        // 254
        vec![254],
        // 254
        vec![254],
        // 254
        vec![254],
        // 254
        vec![254],
        // 254
        vec![254],
        // 254
        vec![254],
        // 254
        vec![254],
        // 254
        vec![254],
        // 254
        vec![254],
        // 254
        vec![254],
        // 254
        vec![254],
        // 249
        vec![249],
        // 76
        vec![76],
        // 127
        vec![127],
    ];
    kani::concrete_playback_run(concrete_vals, single_filter_decisions);
}
