// property C12, harness c12::rsync_relative_to_len6_len5
// failed: relative_to disagrees with the reference @ src/c12.rs
