// Native demonstration of finding C08-notify-mid-header against the real
// rpki::rtr::server::Connection (through the cfg(rpki_verif) hook `Conn`).
// run: RUSTFLAGS="--cfg rpki_verif" cargo test --offline --all-features --test c08_notify_mid_header
#![cfg(rpki_verif)]
use rpki::rtr::server::verif::{self, Conn, VQuery};
use std::future::Future;
use std::io;
use std::pin::{pin, Pin};
use std::task::{Context, Poll, Waker};
use tokio::io::{AsyncRead, ReadBuf};

/// 8 octets arriving as `cut` octets, one Pending, the rest, then EOF.
struct TwoPiece { input: [u8; 8], pos: usize, cut: usize, stalled: bool }

impl AsyncRead for TwoPiece {
    fn poll_read(mut self: Pin<&mut Self>, _cx: &mut Context<'_>,
                 buf: &mut ReadBuf<'_>) -> Poll<io::Result<()>> {
        if self.pos == self.cut && !self.stalled {
            self.stalled = true;
            return Poll::Pending;
        }
        let end = if self.pos < self.cut { self.cut } else { 8 };
        let n = std::cmp::min(end - self.pos, buf.remaining());
        let pos = self.pos;
        buf.put_slice(&self.input[pos..pos + n]);
        self.pos += n;
        Poll::Ready(Ok(()))
    }
}

fn block_on<F: Future>(f: F, max_polls: usize) -> Option<F::Output> {
    let mut f = pin!(f);
    let mut cx = Context::from_waker(Waker::noop());
    for _ in 0..max_polls {
        if let Poll::Ready(v) = f.as_mut().poll(&mut cx) { return Some(v) }
    }
    None
}

#[test]
fn notification_mid_header_loses_the_query() {
    // A complete, well-formed Reset Query (version 1).
    let query = [1u8, 2, 0, 0, 0, 0, 0, 8];
    unsafe { verif::NOTIFY_POLLS = 0; verif::NOTIFY_SCHEDULE = 0b10; }
    let sock = TwoPiece { input: query, pos: 0, cut: 3, stalled: false };
    let mut conn = Conn::new(sock, ());
    // first recv: 3 octets arrive, then the notification fires
    let first = block_on(conn.recv(), 2).expect("recv completes");
    assert!(matches!(first, Ok(Some(VQuery::Notify))));
    let consumed = conn.sock().pos;
    // second recv: the remaining 5 octets arrive
    unsafe { verif::NOTIFY_SCHEDULE = 0; }
    let second = block_on(conn.recv(), 4).expect("recv completes");
    // Property C08: the complete query must be answered whatever the
    // fragmentation and the moment of the notification.
    assert!(
        matches!(second, Ok(Some(VQuery::Reset))),
        "Reset Query lost: {} octets were taken off the socket before the \
         notification and dropped; second recv returned {}",
        consumed,
        match second {
            Ok(None) => "Ok(None) (connection closed)".to_string(),
            Ok(Some(VQuery::Error(_))) => "an Error PDU".to_string(),
            Ok(Some(_)) => "another query".to_string(),
            Err(e) => format!("Err({e})"),
        }
    );
}
