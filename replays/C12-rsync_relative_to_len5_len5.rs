// property C12, harness c12::rsync_relative_to_len5_len5
// failed: relative_to disagrees with the reference @ src/c12.rs
// native replay: dev: panic: src/c12.rs:451:14: relative_to disagrees with the reference; release: panic: src/c12.rs:451:14: relative_to disagrees with the reference
// run: cd /verif && ./replay /verif/replays/C12-rsync_relative_to_len5_len5.rs
/// Test generated for harness `c12::rsync_relative_to_len5_len5` 
///
/// Check for `assertion`: "relative_to disagrees with the reference"

#[test]
fn kani_concrete_playback_rsync_relative_to_len5_len5_4904111836911113101() {
    let concrete_vals: Vec<Vec<u8>> = vec![
        // 95
        vec![95],
        // 47
        vec![47],
        // 76
        vec![76],
        // 47
        vec![47],
        // 58
        vec![58],
        // 95
        vec![95],
        // 47
        vec![47],
        // 108
        vec![108],
        // 47
        vec![47],
        // 58
        vec![58],
    ];
    kani::concrete_playback_run(concrete_vals, rsync_relative_to_len5_len5);
}
