// property C12, harness c12::https_join_arg2
// failed: assertion failed: ref_path_idx(s) == 8 + alen @ src/c12.rs
