// property C17, harness c17::validity_window_and_trim
// failed: assertion failed: min <= max @ /home/runner/.rustup/toolchains/nightly-2026-08-21-x86_64-unknown-linux-gnu/lib/rustlib/src/rust/library/core/src/cmp.rs; assertion failed: t.not_before() == if nbs >= nb2s { nb } else { nb2 } @ src/c17.rs; assertion failed: t.not_after() == if nas <= na2s { na } else { na2 } @ src/c17.rs
// native replay: dev: panic: /home/runner/.rustup/toolchains/nightly-2026-08-21-x86_64-unknown-linux-gnu/lib/rustlib/src/rust/library/core/src/cmp.rs:1163:9: assertion failed: min <= max; release: panic: /home/runner/.rustup/toolchains/nightly-2026-08-21-x86_64-unknown-linux-gnu/lib/rustlib/src/rust/library/core/src/cmp.rs:1163:9: assertion failed: min <= max
// run: cd /verif && ./replay /verif/replays/C17-validity_window_and_trim.rs
/// Test generated for harness `c17::validity_window_and_trim` 
///
/// Check for `assertion`: "assertion failed: min <= max"

#[test]
fn kani_concrete_playback_validity_window_and_trim_1150070388652138419() {
    let concrete_vals: Vec<Vec<u8>> = vec![
        // 3462
        vec![134, 13, 0, 0],
        // 1
        vec![1, 0, 0, 0],
        // 81919
        vec![255, 63, 1, 0],
        // 1563
        vec![27, 6, 0, 0],
        // 8
        vec![8, 0, 0, 0],
        // 81919
        vec![255, 63, 1, 0],
        // 9584
        vec![112, 37, 0, 0],
        // 2
        vec![2, 0, 0, 0],
        // 81919
        vec![255, 63, 1, 0],
        // 7427
        vec![3, 29, 0, 0],
        // 1
        vec![1, 0, 0, 0],
        // 81918
        vec![254, 63, 1, 0],
        // 146
        vec![146, 0, 0, 0],
        // 64
        vec![64, 0, 0, 0],
        // 86399
        vec![127, 81, 1, 0],
    ];
    kani::concrete_playback_run(concrete_vals, validity_window_and_trim);
}
