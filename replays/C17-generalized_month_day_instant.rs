// property C17, harness c17::generalized_month_day_instant
// failed: assertion failed: res.is_ok() == valid @ src/c17.rs
