// property C13, harness c13::asn_set_probe_collect3
// failed: "set iterator not strictly ascending" @ src/c13.rs
