// property C13, harness c13::asn_set_collect_len3
// failed: "set iterator not strictly ascending" @ src/c13.rs
// native replay: dev: panic: src/c13.rs:387:13: set iterator not strictly ascending; release: panic: src/c13.rs:387:13: set iterator not strictly ascending
// run: cd /verif && ./replay /verif/replays/C13-asn_set_collect_len3.rs
/// Test generated for harness `c13::asn_set_collect_len3` 
///
/// Check for `assertion`: ""set iterator not strictly ascending""

#[test]
fn kani_concrete_playback_asn_set_collect_len3_6683370196141453377() {
    let concrete_vals: Vec<Vec<u8>> = vec![
        // 1266155536
        vec![16, 0, 120, 75],
        // 1602093063
        vec![7, 0, 126, 95],
        // 1602093063
        vec![7, 0, 126, 95],
        // 1602093062
        vec![6, 0, 126, 95],
    ];
    kani::concrete_playback_run(concrete_vals, asn_set_collect_len3);
}
