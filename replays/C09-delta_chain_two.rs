// property C09, harness c09::delta_chain_two
// failed: attempt to add with overflow @ /repo/src/rrdp.rs; index out of bounds: the length is less than or equal to the given index @ /home/runner/.rustup/toolchains/nightly-2026-08-21-x86_64-unknown-linux-gnu/lib/rustlib/src/rust/library/core/src/slice/index.rs
// native replay: dev: panic: /repo/src/rrdp.rs:170:43: index out of bounds: the len is 0 but the index is 0; release: panic: /repo/src/rrdp.rs:170:43: index out of bounds: the len is 0 but the index is 0
// run: cd /verif && ./replay /verif/replays/C09-delta_chain_two.rs
/// Test generated for harness `c09::delta_chain_two` 
///
/// Check for `assertion`: "index out of bounds: the length is less than or equal to the given index"

#[test]
fn kani_concrete_playback_delta_chain_two_5402782120904606739() {
    let concrete_vals: Vec<Vec<u8>> = vec![
        // 18446744073709551615ul
        vec![255, 255, 255, 255, 255, 255, 255, 255],
        // 9223372036854775807ul
        vec![255, 255, 255, 255, 255, 255, 255, 127],
        // 1
        vec![1],
        // 0ul
        vec![0, 0, 0, 0, 0, 0, 0, 0],
    ];
    kani::concrete_playback_run(concrete_vals, delta_chain_two);
}
