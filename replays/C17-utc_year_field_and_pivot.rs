// property C17, harness c17::utc_year_field_and_pivot
// failed: assertion failed: res.is_ok() == want.is_some() @ src/c17.rs
// native replay: dev: panic: src/c17.rs:85:5: assertion `left == right` failed; release: panic: src/c17.rs:85:5: assertion `left == right` failed
// run: cd /verif && ./check C17 --replay /verif/replays/C17-utc_year_field_and_pivot.rs
/// Test generated for harness `c17::utc_year_field_and_pivot` 
///
/// Check for `assertion`: "assertion failed: res.is_ok() == want.is_some()"

#[test]
fn kani_concrete_playback_utc_year_field_and_pivot_6360886593085339687() {
    let concrete_vals: Vec<Vec<u8>> = vec![
        // 43
        vec![43],
        // 48
        vec![48],
    ];
    kani::concrete_playback_run(concrete_vals, utc_year_field_and_pivot);
}
