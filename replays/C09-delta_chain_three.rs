// property C09, harness c09::delta_chain_three
// failed: attempt to add with overflow @ /repo/src/rrdp.rs; index out of bounds: the length is less than or equal to the given index @ /home/runner/.rustup/toolchains/nightly-2026-08-21-x86_64-unknown-linux-gnu/lib/rustlib/src/rust/library/core/src/slice/index.rs
// native replay: dev: panic: /repo/src/rrdp.rs:172:24: attempt to add with overflow; release: panic: /repo/src/rrdp.rs:172:24: attempt to add with overflow
// run: cd /verif && ./replay /verif/replays/C09-delta_chain_three.rs
/// Test generated for harness `c09::delta_chain_three` 
///
/// Check for `assertion`: "attempt to add with overflow"

#[test]
fn kani_concrete_playback_delta_chain_three_5739758641129435684() {
    let concrete_vals: Vec<Vec<u8>> = vec![
        // 18446744073709551615ul
        vec![255, 255, 255, 255, 255, 255, 255, 255],
        // 18446744073709551615ul
        vec![255, 255, 255, 255, 255, 255, 255, 255],
        // 18446744073709551614ul
        vec![254, 255, 255, 255, 255, 255, 255, 255],
        // 1
        vec![1],
        // 13835110831840296962ul
        vec![2, 0, 0, 0, 0, 48, 0, 192],
    ];
    kani::concrete_playback_run(concrete_vals, delta_chain_three);
}
