// property C09, harness c09::delta_chain_three
// failed: assertion failed: got == want @ src/c09.rs
// native replay: dev: panic: src/c09.rs:72:5: assertion `left == right` failed; release: panic: src/c09.rs:72:5: assertion `left == right` failed
// run: cd /verif && ./replay /verif/replays/C09-delta_chain_three.rs
/// Test generated for harness `c09::delta_chain_three` 
///
/// Check for `assertion`: "assertion failed: got == want"

#[test]
fn kani_concrete_playback_delta_chain_three_4073771421060581290() {
    let concrete_vals: Vec<Vec<u8>> = vec![
        // 2305843009213693951ul
        vec![255, 255, 255, 255, 255, 255, 255, 31],
        // 2305843009213693951ul
        vec![255, 255, 255, 255, 255, 255, 255, 31],
        // 2305843009213693953ul
        vec![1, 0, 0, 0, 0, 0, 0, 32],
        // 1
        vec![1],
        // 9223389629040820226ul
        vec![2, 0, 0, 0, 0, 16, 0, 128],
    ];
    kani::concrete_playback_run(concrete_vals, delta_chain_three);
}
