// property C03, harness c03::collect_three_any_order
// failed: assertion failed: canonical(s) @ src/c03.rs
// native replay: dev: panic: src/c03.rs:1212:5: assertion failed: canonical(s); release: panic: src/c03.rs:1212:5: assertion failed: canonical(s)
// run: cd /verif && ./replay /verif/replays/C03-collect_three_any_order.rs
/// Test generated for harness `c03::collect_three_any_order` 
///
/// Check for `assertion`: "assertion failed: canonical(s)"
///
/// # Warning
///
/// Concrete playback tests combined with stubs or contracts is highly
/// experimental, and subject to change.
///
/// The original harness has stubs which are not applied to this test.
/// This may cause a mismatch of non-deterministic values if the stub
/// creates any non-deterministic value.
/// The execution path may also differ, which can be used to refine the stub
/// logic.

#[test]
fn kani_concrete_playback_collect_three_any_order_5590925903461027020() {
    let concrete_vals: Vec<Vec<u8>> = vec![
        // 221
        vec![221],
        // 247
        vec![247],
        // 140
        vec![140],
        // 156
        vec![156],
        // 122
        vec![122],
        // 242
        vec![242],
        // 207
        vec![207],
    ];
    kani::concrete_playback_run(concrete_vals, collect_three_any_order);
}
