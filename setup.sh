#!/bin/bash
# setup_cmd for MANIFEST.json: builds everything the checks need from files
# already on disk (offline).  Idempotent.
#
#  1. vendor/bcder: copy of bcder 0.7.7 from the cargo registry source with the
#     derived `Debug` of the private enum `DecodeErrorKind<S>` written out by
#     hand (Kani 0.68 ICEs on the derived impl at S = Infallible).  Nothing
#     else in the dependency is changed; see DESIGN.md §1 "dependency shim".
#  2. Cargo.lock of the harness crate is copied from /repo so that exactly the
#     dependency versions of the pinned tree are used.
set -euo pipefail
cd "$(dirname "$0")"
export CARGO_NET_OFFLINE=true

SRC=$(ls -d "$HOME"/.cargo/registry/src/*/bcder-0.7.7 | head -1)
DST=harness/vendor/bcder
if [ ! -f "$DST/.shim-ok" ]; then
    rm -rf "$DST"
    mkdir -p harness/vendor
    cp -r "$SRC" "$DST"
    python3 - "$DST/src/decode/error.rs" <<'EOF'
import sys, re
p = sys.argv[1]
s = open(p).read()
old = "#[derive(Debug)]\nenum DecodeErrorKind<S> {"
assert s.count(old) == 1, "bcder source layout changed"
s = s.replace(old, "enum DecodeErrorKind<S> {")
s += '''

// --- rpki-rs verification shim: hand-written replacement of the derived
// --- Debug impl above (Kani 0.68 ICE on the derive at S = Infallible).
impl<S> fmt::Debug for DecodeErrorKind<S> {
    fn fmt(&self, f: &mut fmt::Formatter) -> fmt::Result {
        match *self {
            DecodeErrorKind::Source(_) => f.write_str("Source(..)"),
            DecodeErrorKind::Content { .. } => f.write_str("Content{..}"),
        }
    }
}
'''
open(p, "w").write(s)
EOF
    touch "$DST/.shim-ok"
fi
cp /repo/Cargo.lock harness/Cargo.lock
echo "setup ok"
