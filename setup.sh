#!/bin/bash
# setup_cmd for MANIFEST.json: builds everything the checks need from files
# already on disk (offline).  Idempotent.
#
#  1. vendor/bcder: copy of bcder 0.7.7 from the cargo registry source with the
#     derived `Debug` of the private enum `DecodeErrorKind<S>` written out by
#     hand (Kani 0.68 ICEs on the derived impl at S = Infallible).  Nothing
#     else in the dependency is changed; see DESIGN.md §1 "dependency shim".
#  2. Cargo.lock of the harness crate is copied from /repo so that exactly the
#     dependency versions of the pinned tree are used.
set -euo pipefail
cd "$(dirname "$0")"
export CARGO_NET_OFFLINE=true

SRC=$(ls -d "$HOME"/.cargo/registry/src/*/bcder-0.7.7 | head -1)
DST=harness/vendor/bcder
if [ ! -f "$DST/.shim-ok" ]; then
    rm -rf "$DST"
    mkdir -p harness/vendor
    cp -r "$SRC" "$DST"
    python3 - "$DST/src/decode/error.rs" <<'EOF'
import sys, re
p = sys.argv[1]
s = open(p).read()
old = "#[derive(Debug)]\nenum DecodeErrorKind<S> {"
assert s.count(old) == 1, "bcder source layout changed"
s = s.replace(old, "enum DecodeErrorKind<S> {")
s += '''

// --- rpki-rs verification shim: hand-written replacement of the derived
// --- Debug impl above (Kani 0.68 ICE on the derive at S = Infallible).
impl<S> fmt::Debug for DecodeErrorKind<S> {
    fn fmt(&self, f: &mut fmt::Formatter) -> fmt::Result {
        match *self {
            DecodeErrorKind::Source(_) => f.write_str("Source(..)"),
            DecodeErrorKind::Content { .. } => f.write_str("Content{..}"),
        }
    }
}
'''
open(p, "w").write(s)
EOF
    # Captured::from_values: under cfg(kani) the encoder writes into a Vec<u8>
    # (then Bytes::from) instead of a BytesMut, whose reference-counted,
    # pointer-tagged growth path stalls symbolic execution.  Same bytes.
    python3 - "$DST/src/captured.rs" <<'PYEOF'
import sys
p = sys.argv[1]
s = open(p).read()
old = """        let mut builder = Self::builder(mode);
        builder.extend(values);
        builder.freeze()
"""
assert s.count(old) == 1, "bcder source layout changed"
new = """        #[cfg(kani)]
        {
            let mut v: Vec<u8> = Vec::with_capacity(64);
            values.write_encoded(mode, &mut v).unwrap();
            return Captured::new(Bytes::from(v), mode, Pos::default());
        }
        #[cfg(not(kani))]
        {
        let mut builder = Self::builder(mode);
        builder.extend(values);
        builder.freeze()
        }
"""
open(p, "w").write(s.replace(old, new))
PYEOF
    touch "$DST/.shim-ok"
fi

#  3. vendor/bytes: copy of bytes 1.11.1 in which, under cfg(kani) only,
#     `Bytes::from(Vec<u8>)` and `Bytes::from(Box<[u8]>)` leak the buffer and
#     wrap it as a static slice (same content, never freed) instead of the
#     pointer-tagging "promotable" representation, whose symbolic execution
#     costs minutes per value.  Impls of generic traits cannot be replaced
#     with #[kani::stub], hence the shim; see DESIGN.md §1.
SRC=$(ls -d "$HOME"/.cargo/registry/src/*/bytes-1.11.1 | head -1)
DST=harness/vendor/bytes
if [ ! -f "$DST/.shim-ok" ]; then
    rm -rf "$DST"
    cp -r "$SRC" "$DST"
    python3 - "$DST/src/bytes.rs" <<'PYEOF'
import sys
p = sys.argv[1]
s = open(p).read()
a = "impl From<Vec<u8>> for Bytes {\n    fn from(vec: Vec<u8>) -> Bytes {\n"
b = "impl From<Box<[u8]>> for Bytes {\n    fn from(slice: Box<[u8]>) -> Bytes {\n"
assert s.count(a) == 1 and s.count(b) == 1, "bytes source layout changed"
def patch(s, head, early):
    i = s.index(head) + len(head)
    j = s.index("\n    }\n}\n", i)
    return (s[:i] + "        #[cfg(kani)]\n        { return " + early
            + "; }\n        #[cfg(not(kani))]\n        {\n" + s[i:j]
            + "\n        }" + s[j:])
s = patch(s, a, "Bytes::from_static(Vec::leak(vec))")
s = patch(s, b, "Bytes::from_static(Box::leak(slice))")
# Drop: nothing is ever freed under Kani (every Bytes is a leaked or static
# buffer); Clone: a second static view of the same bytes.  Both avoid the
# indirect call through the vtable, which CBMC resolves to every candidate
# (shared / promotable reference counting with pointer tagging).
d = "        unsafe { (self.vtable.drop)(&mut self.data, self.ptr, self.len) }\n"
c = "        unsafe { (self.vtable.clone)(&self.data, self.ptr, self.len) }\n"
assert s.count(d) == 1 and s.count(c) == 1, "bytes source layout changed"
s = s.replace(d, "        #[cfg(not(kani))]\n" + d)
s = s.replace(c, "        #[cfg(kani)]\n        { return unsafe { Bytes::from_static("
              "slice::from_raw_parts(self.ptr, self.len)) }; }\n"
              "        #[cfg(not(kani))]\n" + c)
open(p, "w").write(s)
PYEOF
    touch "$DST/.shim-ok"
fi
cp /repo/Cargo.lock harness/Cargo.lock
echo "setup ok"
